#!/bin/sh
# Builds the orchestrator from files on disk only (offline). The worker that links
# go-text/typesetting is built by every check from /repo's current working tree.
set -e
cd "$(dirname "$0")/sim"
export GOFLAGS=-mod=mod GOPROXY=off GOSUMDB=off GOTOOLCHAIN=local
mkdir -p ../bin ../evidence ../replays
go build -o ../bin/verifsim ./cmd/verifsim
