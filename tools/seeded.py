#!/usr/bin/env python3
"""Confirms a seeded change delivered by a sub-agent and runs the corresponding check against it.
usage: tools/seeded.py <property-id> <name> <dir with patch.diff demo_test.go demo_path.txt notes.md> [--tier quick] [--runs N]
Creates /verif/seeded/<name>/ (patch.diff, demo, meta.json) only if the change is confirmed:
compiles, existing tests pass with it, the demo fails with it and passes without it."""
import json, os, shutil, subprocess, sys, tempfile, time

HOME = os.path.dirname(os.path.dirname(os.path.abspath(__file__)))
ENV = dict(os.environ, GOFLAGS="-mod=mod", GOPROXY="off", GOSUMDB="off", GOTOOLCHAIN="local")

def sh(cmd, cwd, **kw):
    return subprocess.run(cmd, cwd=cwd, env=ENV, capture_output=True, text=True, shell=isinstance(cmd, str), **kw)

def main():
    pid, name, src = sys.argv[1], sys.argv[2], sys.argv[3]
    extra = sys.argv[4:]
    patch = os.path.join(src, "patch.diff")
    demo = os.path.join(src, "demo_test.go")
    demo_path = open(os.path.join(src, "demo_path.txt")).read().strip()
    notes = open(os.path.join(src, "notes.md")).read() if os.path.exists(os.path.join(src, "notes.md")) else ""
    d = tempfile.mkdtemp(prefix="verif-seed-", dir="/tmp")
    wt = os.path.join(d, "wt")
    subprocess.run(["git", "-C", "/repo", "worktree", "add", "-q", "--detach", wt, "HEAD"], check=True)
    meta = {"property": pid, "name": name, "needs": notes[:3000], "ran": []}
    ok = True
    try:
        pkgdir = "./" + os.path.dirname(demo_path)
        racy = "-race" in open(demo).read() or pid == "C17"
        testcmd = ["go", "test", "-count=1"] + (["-race"] if racy else []) + [pkgdir]
        # 1. demo passes on the clean tree
        shutil.copy(demo, os.path.join(wt, demo_path))
        r = sh(testcmd, wt)
        meta["ran"].append({"cmd": " ".join(testcmd) + "  (clean tree + demo)", "exit": r.returncode})
        if r.returncode != 0:
            print("REJECT: demo does not pass on the clean tree:\n", (r.stdout + r.stderr)[-1500:]); ok = False
        os.remove(os.path.join(wt, demo_path))
        # 2. patch applies, builds, existing suite passes
        r = sh(["git", "apply", patch], wt)
        if r.returncode != 0:
            print("REJECT: patch does not apply:", r.stderr); ok = False
        r = sh("go build ./... && go vet ./... 2>&1 | tail -3; go test -count=1 ./... 2>&1 | grep -v 'no test files' | tail -15", wt)
        suite_ok = "FAIL" not in r.stdout and "cannot" not in r.stdout and r.returncode == 0
        meta["ran"].append({"cmd": "go build ./... && go test -count=1 ./...  (patched tree, no demo)", "passed": suite_ok})
        if not suite_ok:
            print("REJECT: build or existing tests fail with the patch:\n", r.stdout[-1500:], r.stderr[-500:]); ok = False
        # 3. demo fails on the patched tree
        shutil.copy(demo, os.path.join(wt, demo_path))
        r = sh(testcmd, wt)
        meta["ran"].append({"cmd": " ".join(testcmd) + "  (patched tree + demo)", "exit": r.returncode})
        if r.returncode == 0:
            print("REJECT: demo passes with the patch applied"); ok = False
        os.remove(os.path.join(wt, demo_path))
        if not ok:
            return 1
        # 4. my check against the patched tree
        vh = os.path.join(d, "home")
        os.makedirs(vh)
        os.symlink(os.path.join(HOME, "sim"), os.path.join(vh, "sim"))
        shutil.copy(os.path.join(HOME, "known_findings.json"), vh)
        shutil.copytree(os.path.join(HOME, "known"), os.path.join(vh, "known"))
        t0 = time.time()
        cmd = [os.path.join(HOME, "bin", "verifsim"), "check", pid, "--tier", "quick", "--no-evidence"] + extra
        r = subprocess.run(cmd, env=dict(os.environ, VERIF_REPO=wt, VERIF_HOME=vh), capture_output=True, text=True)
        dt = time.time() - t0
        lines = [l for l in r.stdout.splitlines() if l.startswith("violation class") or l.startswith("VIOLATION") or l.startswith("regression")]
        verdict = "caught" if r.returncode == 1 and "VIOLATION property=" + pid in r.stdout else ("missed" if r.returncode == 0 else "infra exit %d" % r.returncode)
        meta["check"] = {"cmd": " ".join(cmd[1:]) + " (VERIF_REPO=patched scratch worktree)", "verdict": verdict, "seconds": round(dt, 1), "report": [l[:400] for l in lines[:6]]}
        if verdict.startswith("infra"):
            meta["check"]["stderr"] = r.stderr[-600:]
        # keep the replay of the reported violation, if any
        out = os.path.join(HOME, "seeded", name)
        os.makedirs(out, exist_ok=True)
        shutil.copy(patch, os.path.join(out, "patch.diff"))
        shutil.copy(demo, os.path.join(out, os.path.basename(demo_path)))
        meta["demo_path"] = demo_path
        for l in lines:
            if l.startswith("VIOLATION") and "replay=" in l:
                rp = l.split("replay=")[1].strip()
                if os.path.exists(rp):
                    shutil.copy(rp, os.path.join(out, "replay.json"))
                    break
        json.dump(meta, open(os.path.join(out, "meta.json"), "w"), indent=1)
        print("%s %s: %s in %.0fs %s" % (pid, name, verdict, dt, (lines[0][:200] if lines else "")))
        return 0
    finally:
        subprocess.run(["git", "-C", "/repo", "worktree", "remove", "--force", wt])
        shutil.rmtree(d, ignore_errors=True)

sys.exit(main())
