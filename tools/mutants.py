#!/usr/bin/env python3
"""Sensitivity self-test: applies deliberate property-breaking edits (one at a time) to a
scratch copy of /repo and requires the quick check to report a violation.
usage: tools/mutants.py <property-id> [name-substring] [--tier quick] [--runs N]
Mutants live in /verif/mutants/<id>.json: [{"name","file","old","new"}] (exact string replacement)."""
import json, os, shutil, subprocess, sys, tempfile, time

HOME = os.path.dirname(os.path.dirname(os.path.abspath(__file__)))

def main():
    argv = sys.argv[1:]
    if "--runs" in argv:
        i = argv.index("--runs")
        argv = argv[:i] + argv[i + 2:]
    args = [a for a in argv if not a.startswith("--")]
    pid = args[0]
    flt = args[1] if len(args) > 1 else ""
    extra = []
    if "--runs" in sys.argv:
        extra += ["--runs", sys.argv[sys.argv.index("--runs") + 1]]
    muts = json.load(open(os.path.join(HOME, "mutants", pid + ".json")))
    base = "/dev/shm" if os.path.isdir("/dev/shm") else tempfile.gettempdir()
    results = []
    for m in muts:
        if flt and flt not in m["name"]:
            continue
        d = tempfile.mkdtemp(prefix="verif-mut-", dir=base)
        try:
            repo = os.path.join(d, "repo")
            shutil.copytree("/repo", repo, ignore=shutil.ignore_patterns(".git"))
            p = os.path.join(repo, m["file"])
            s = open(p).read()
            edits = m.get("edits") or [{"old": m["old"], "new": m["new"]}]
            stale = [e for e in edits if s.count(e["old"]) != 1]
            if stale:
                results.append((m["name"], "STALE (pattern occurs %d times)" % s.count(stale[0]["old"]), 0))
                continue
            for e in edits:
                s = s.replace(e["old"], e["new"])
            open(p, "w").write(s + m.get("append", ""))
            b = subprocess.run(["go", "build", "./..."], cwd=repo, capture_output=True, text=True,
                               env=dict(os.environ, GOFLAGS="-mod=mod", GOPROXY="off", GOSUMDB="off", GOTOOLCHAIN="local"))
            if b.returncode != 0:
                results.append((m["name"], "DOES NOT COMPILE: " + b.stderr[:200], 0))
                continue
            t0 = time.time()
            env = dict(os.environ, VERIF_REPO=repo, VERIF_HOME=os.path.join(d, "home"))
            os.makedirs(os.path.join(d, "home"))
            os.symlink(os.path.join(HOME, "sim"), os.path.join(d, "home", "sim"))
            if os.path.exists(os.path.join(HOME, "known_findings.json")):
                shutil.copy(os.path.join(HOME, "known_findings.json"), os.path.join(d, "home"))
                if os.path.isdir(os.path.join(HOME, "known")):
                    shutil.copytree(os.path.join(HOME, "known"), os.path.join(d, "home", "known"))
            r = subprocess.run([os.path.join(HOME, "bin", "verifsim"), "check", pid, "--tier", "quick", "--no-evidence"] + extra,
                               capture_output=True, text=True, env=env)
            dt = time.time() - t0
            viol = [l for l in r.stdout.splitlines() if l.startswith("violation class") or l.startswith("regression")]
            if r.returncode == 1 and "VIOLATION property=" + pid in r.stdout:
                results.append((m["name"], "caught: " + (viol[0][:160] if viol else ""), dt))
            elif r.returncode == 0:
                results.append((m["name"], "MISSED", dt))
            else:
                results.append((m["name"], "INFRA exit %d: %s" % (r.returncode, (r.stderr or r.stdout)[-300:]), dt))
        finally:
            shutil.rmtree(d, ignore_errors=True)
    missed = 0
    for name, res, dt in results:
        print("%-45s %6.1fs  %s" % (name, dt, res))
        if not res.startswith("caught"):
            missed += 1
    print("%d mutants, %d not caught" % (len(results), missed))
    sys.exit(1 if missed else 0)

main()
