#!/usr/bin/env python3
"""Regenerates /verif/MANIFEST.json from the tables below and validates it."""
import json, subprocess, os, sys

HOME = os.path.dirname(os.path.dirname(os.path.abspath(__file__)))

def hook_commits():
    try:
        out = subprocess.run(["git", "-C", "/repo", "log", "--format=%H", "--grep=^verif hooks:"], capture_output=True, text=True).stdout.split()
        return out
    except Exception:
        return []

NA = {
 "C01": "Shape is a pure function of (font, text, bounds, direction, script, language, size, features): no schedule, clock, stream, stored state or fault takes part; totality over all inputs is input-space search, not simulation. Reuse of a shaper across calls is decided under C13, shaping with faulted fonts under C09.",
 "C02": "WrapParagraph is a pure function of (paragraph, runs, config, width); conservation of runes/glyphs quantifies over inputs and configurations only (wrapper reuse is decided under C13).",
 "C03": "Same pure function as C02; break legality is a relation between the input and output of a single call.",
 "C04": "Same pure function as C02; width, greediness and truncation laws are per-call input-output relations with no history, fault or schedule.",
 "C05": "Differential equality with reference HarfBuzz over inputs; pure, and no reference HarfBuzz exists in this sandbox.",
 "C08": "computeBidiOrdering is a pure function of a level sequence; the stated scope is a finite enumeration (model checking), not seeded simulation.",
 "C10": "Differential equality of decoded metrics/outlines with an independent decoder per glyph; pure function of the font bytes.",
 "C11": "cmap lookup vs enumeration vs coverage is a per-font pure computation on an immutable value; no fault or schedule surface (the rune-set serialization round trip is exercised inside C16).",
 "C12": "Geometric identities of one Shape/spacing call; pure.",
 "C15": "retainsBestMatches is a pure function on a finite grid; the stated method is exhaustive enumeration against CSS Fonts 5.2.",
 "C18": "Metamorphic relation between shaping a text whole and in pieces; pure function of the inputs.",
 "C19": "WriteTTF maps a table list to a byte slice in memory (no writer, no disk, no partial state); pure.",
 "C20": "Table lookups over all code points; pure, exhaustive enumeration.",
}
PENDING = {
 "C06": "TEMPORARY (engine segreuse under construction): will be claimed for its history clauses; the UAX rule clause is a pure function of the rune string.",
 "C07": "TEMPORARY (engine itemreuse under construction).",
 "C09": "TEMPORARY (engine faultdisk under construction).",
 "C13": "TEMPORARY (engine reuse under construction).",
 "C14": "TEMPORARY (engine fontmapsim under construction).",
 "C16": "TEMPORARY (engine indexsim under construction).",
 "C17": "TEMPORARY (engine schedsim under construction).",
}

CHECKS = {
 "C13": dict(engine="reuse", category="exploration", design_ref="DESIGN.md §4.2",
   text="Seeded search over operation histories on long-lived HarfbuzzShaper, harfbuzz.Buffer, font.Face, shaping.Segmenter, LineWrapper and segmenter.Segmenter objects (cache sizes, evictions, several faces of one font, in-place variation/ppem changes, abandoned paragraphs, calibrated feature sweeps — a text on which a feature is known to change the glyphs, shaped repeatedly with the feature's value or range moving — as per-run swarm choices); every operation is checked against a freshly constructed object (stateless reference model) and earlier results are re-compared until their documented invalidation point. Failures are ddmin-minimised to a replay file and confirmed in a fresh process. A clean batch is evidence over the sampled histories, not proof; this is the right level because the property quantifies over unbounded histories of a sequential API.",
   note="Trusted: a fresh object as specification; the corpus fonts as workload; deep copies isolate arguments. In-place Face mutation between Shape calls only with font cache size 0 (documented restriction).",
   technique="deterministic simulation: seeded operation histories vs fresh-object reference model, swarm-randomised cache knobs, ddmin replay"),
 "C14": dict(engine="fontmapsim", category="exploration", design_ref="DESIGN.md §4.3",
   text="Seeded search over histories of AddFace/AddFont/UseSystemFonts/SetQuery/SetScript/SetRuneCacheSize/ResolveFace on one fontscan.FontMap with randomised rune-cache sizes, checked per lookup against (M1) an uncached replica rebuilt from the add-history and (M2) an independent executable model of the documented four-step priority; a fault family deletes/truncates system font files after indexing. Evidence over sampled histories, not proof.",
   note="Trusted: retainsBestMatches (C15) and the family substitution table content (read from the replica through a verif-tagged read-only hook); footprints of corpus fonts as computed by the library.",
   technique="deterministic simulation: seeded operation histories vs uncached replica and priority model, randomised cache sizes, file faults after indexing"),
 "C16": dict(engine="indexsim", category="fault_enumeration", design_ref="DESIGN.md §4.4",
   text="Simulated disk and clock around the real index persistence and refresh code: seeded histories of file-system mutations (add/remove/replace/touch/rename, symlinks, nested and overlapping roots, half-copied fonts) with every mtime set by a simulated clock, boots through the real refreshSystemFontsIndex, crashes of the cache write at seeded points with crash images (prefix, empty, old, torn sector), corruption at rest, write faults (short write, ENOSPC, EIO, close error); round trips of synthetic indexes from empty to MiB-sized (tens of thousands of entries); oracles: round trip, totality on any image, crash atomicity, recovery equals boot without cache, incremental equals from-scratch. Per run a sub-space is enumerated exhaustively: every prefix length and every single-byte corruption (0x00, 0xFF, one bit) of a serialized index, and, below the compression layer, truncations and byte corruptions of the uncompressed payload and every prefix of the first entries with a consistent length field.",
   note="Trusted: the kernel tmpfs as directory tree; os.Chtimes round trip (verified at start-up); from-scratch scan as reference for incremental refresh. Corrupted images decoding to a different well-formed index are allowed by the property and only counted.",
   technique="deterministic simulation: simulated disk with volatile/durable images and crash points, simulated mtime clock, seeded file-system histories, exhaustive prefix/byte-corruption enumeration"),
 "C09": dict(engine="faultdisk", category="fault_enumeration", design_ref="DESIGN.md §4.1",
   text="The font file is a simulated disk behind the opentype.Resource seam: seeded fault plans (truncation, bit flips, field overwrites, zeroed sectors, swapped table bodies biased to table boundaries and headers; transient EIO / early EOF / short reads at the k-th I/O call) against every corpus container kind, with loading, all face queries and shaping executed under deterministic tick and allocation budgets in an instrumented build; the systematic sub-family walks truncation at every table boundary and inside every table header and boundary values (0, 1, max, near-size, own value +-1) of every directory and header field completely. Added families: structure-aware adversarial plans written by the simulator (composite-glyph cycles and acyclic chains, CFF subroutine call chains, GSUB expansion chains and self-recursive lookups, cmap format 12 group bombs, one shared dimension nudged in one table only, 'kern' format 3 grafts with one element at its bound, FDSelect sentinel/range/font-dict fields of CID-keyed CFF fonts rewritten together) and coverage-guided campaigns (greybox evolution of fault lists under branch-coverage feedback from the instrumented build). Oracles: no panic, error-or-faces, step and allocation budgets, reader fidelity (a returned table equals the image bytes), fault-free equivalence with a bytes.Reader load. Panics are identified by their innermost library frame, step-budget findings by the API call in progress, allocation findings by the dominant allocating function (second execution with MemProfileRate=1); known ones are listed in known_findings.json.",
   note="Trusted: budgets linear in the image size calibrated two orders of magnitude above the pristine corpus; go/ast instrumentation (text splice) preserves semantics; stdlib zlib/gzip time is covered only by the wall-clock backstop.",
   technique="deterministic simulation: faulty simulated disk behind the Resource interface; seeded, systematic, structure-aware adversarial and coverage-guided fault plans; tick/allocation budgets in an instrumented build"),
 "C17": dict(engine="schedsim", category="exploration", design_ref="DESIGN.md §4.5",
   text="Seeded cooperative scheduler over an instrumented copy of the library built with -race: tasks are real goroutines sharing parsed *font.Font values, exactly one runs at a time, hand-off happens at go/ast-inserted yield points through a baton the race detector cannot see (no happens-before edge), so the interleaving is decided by the seed and replays exactly while the detector treats the tasks as concurrent. Sweep plans park one task at strided points (within the calibrated race-detector history window) while the others run; random plans switch at seeded ticks. Oracles: zero race reports, per-task results equal the solo run, no fatal error. A canary (shared *font.Face) and a window calibration run on every invocation. A quarter of the simulations install corpus fonts as system fonts in a scratch directory: per-task font maps then call UseSystemFonts (the process-global index behind the library's only sync.Once; switching is suspended for that call and most such plans switch away right after it) and load faces lazily. So that lazily initialised package-level state is met unfilled, cases are generated in a sub-process, non-sweep plans run the concurrent phase before the solo reference runs, and every chunk of four runs gets a fresh worker process.",
   note="Trusted: the Go race detector's happens-before model (hardware memory-model effects are not executed); GOMAXPROCS=1 + asyncpreemptoff=1 keep the physical schedule under the simulator's control; incidental synchronisation inside the library (fmt, sync.Once) creates real edges as in production.",
   technique="deterministic simulation: seeded cooperative scheduler with race-detector-invisible baton over go/ast-instrumented code, sweep + PCT-style plans, solo-run refinement"),
 "C06": dict(engine="segreuse", category="exploration", design_ref="DESIGN.md §4.6",
   text="History clauses of C06 only: seeded histories on one segmenter.Segmenter (Init with long/short/empty texts, interleaved line/grapheme/word iterators, caller scribbling over the slice passed to Init) checked against boundary lists from a fresh Segmenter, plus the iteration-protocol invariants (non-empty, consecutive, concatenation equals input, last line mandatory).",
   note="Restricted claim: that the boundaries are those of UAX #14/#29 is a pure function of the rune string and is NOT decided here (a fresh Segmenter is trusted for the rules); only independence from earlier use and the iteration protocol are.",
   technique="deterministic simulation: seeded operation histories vs fresh-object reference model with protocol invariants"),
 "C07": dict(engine="itemreuse", category="exploration", design_ref="DESIGN.md §4.7",
   text="History clause and run-time invariants of C07: seeded histories of Split on one shaping.Segmenter (sub-ranges, paragraph directions incl. vertical, languages, three Fontmap kinds incl. a real fontscan.FontMap) compared with a fresh Segmenter, ownership until the next Split, and on every step the partition/uniformity invariants (consecutive non-empty runs covering the range, text/size/features untouched, single bidi parity re-derived independently, single strong script, uniform orientation, face resolution, language compatible with script).",
   note="Restricted claim: that the chosen run boundaries are the right ones beyond those invariants is a pure input-output question and is not decided here.",
   technique="deterministic simulation: seeded operation histories vs fresh-object reference model with per-step invariants"),
}

def main():
    claimed = [p for p in sys.argv[1:]] or []
    checks = []
    engines = []
    for pid in claimed:
        c = CHECKS[pid]
        checks.append({
            "property_id": pid,
            "quick_cmd": f"bin/verifsim check {pid} --tier quick",
            "thorough_cmd": f"bin/verifsim check {pid} --tier thorough",
            "evidence_file": f"/verif/evidence/{pid}.json",
            "replay_cmd_template": "bin/verifsim replay {path}",
            "engine": c["engine"],
            "level_claimed": {"category": c["category"], "text": c["text"], "design_ref": c["design_ref"]},
            "level_note": c["note"],
            "technique": c["technique"],
        })
        engines.append({"name": c["engine"], "path": f"sim/engines/{c['engine']}.go", "serves_properties": [pid],
                        "kind_free_text": c["technique"]})
    na = [{"property_id": k, "reason": v} for k, v in sorted(NA.items())]
    for k, v in sorted(PENDING.items()):
        if k not in claimed:
            na.append({"property_id": k, "reason": v})
    m = {
        "version": 1,
        "setup_cmd": "./setup.sh",
        "hooks": {
            "guard": "verif",
            "enable": "go build -tags verif (Go build tag; hook code lives in fontscan/verif_hooks.go behind //go:build verif, the off-variant in fontscan/verif_hooks_off.go)",
            "baseline_off_cmd": "cd /repo && go test -json -vet=off -count=1 -timeout 25m ./...",
            "source_commits": hook_commits(),
            "add_only": True,
        },
        "engines": engines,
        "checks": checks,
        "notes": "Deterministic simulation with fault injection; see DESIGN.md. Exit 0 held / 1 + VIOLATION line / 2 infrastructure. VERIF_SEED honoured. Genuine defects repaired by fix: commits in /repo are listed in known_findings.json (status fixed) and their replays are re-executed on every run.",
        "not_applicable": na,
    }
    with open(os.path.join(HOME, "MANIFEST.json"), "w") as f:
        json.dump(m, f, indent=1, ensure_ascii=False)
        f.write("\n")
    try:
        import jsonschema
        jsonschema.validate(m, json.load(open("/root/.vp/MANIFEST.schema.json")))
        print("MANIFEST.json valid;", len(checks), "checks,", len(na), "not applicable")
    except ImportError:
        print("written (jsonschema not available in this interpreter)")

main()
