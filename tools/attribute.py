#!/usr/bin/env python3
"""Attributes stored replays to the /repo commit that repaired them: walks the history,
builds a plain (uninstrumented) worker against each commit and replays every file.
usage: tools/attribute.py <base-commit> <replay files...>   -> JSON {replay: first_passing_commit}"""
import json, os, subprocess, sys, tempfile, shutil

HOME = os.path.dirname(os.path.dirname(os.path.abspath(__file__)))
ENV = dict(os.environ, GOFLAGS="-mod=mod", GOPROXY="off", GOSUMDB="off", GOTOOLCHAIN="local")

def main():
    base = sys.argv[1]
    files = sys.argv[2:]
    commits = subprocess.run(["git", "-C", "/repo", "rev-list", "--reverse", base + "..HEAD"], capture_output=True, text=True).stdout.split()
    d = tempfile.mkdtemp(prefix="verif-attr-", dir="/dev/shm")
    wt = os.path.join(d, "wt")
    subprocess.run(["git", "-C", "/repo", "worktree", "add", "-q", "--detach", wt, base], check=True)
    result = {}
    try:
        failing = set(files)
        for c in [base] + commits:
            subprocess.run(["git", "-C", wt, "checkout", "-q", c], check=True)
            if not os.path.exists(os.path.join(wt, "fontscan", "verif_hooks.go")):
                tags = "nohooks"
            else:
                tags = "verif"
            mod = open(os.path.join(HOME, "sim", "go.mod")).read().replace("=> /repo", "=> " + wt)
            open(os.path.join(d, "go.mod"), "w").write(mod)
            shutil.copy(os.path.join(wt, "go.sum"), os.path.join(d, "go.sum"))
            b = subprocess.run(["go", "build", "-tags", tags, "-modfile=" + os.path.join(d, "go.mod"), "-o", os.path.join(d, "w"), "./cmd/verifworker"],
                               cwd=os.path.join(HOME, "sim"), env=ENV, capture_output=True, text=True)
            if b.returncode != 0:
                print("build failed at", c[:8], b.stderr[:300], file=sys.stderr)
                continue
            for f in sorted(failing):
                try:
                    r = subprocess.run("ulimit -v 6000000; exec %s replay -file %s" % (os.path.join(d, "w"), f), shell=True, capture_output=True, text=True,
                                       env=dict(ENV, PATH=os.environ["PATH"]), timeout=6)
                except subprocess.TimeoutExpired:
                    continue
                ok = False
                if r.returncode == 0:
                    for ln in r.stdout.splitlines():
                        try:
                            l = json.loads(ln)
                        except Exception:
                            continue
                        if l.get("t") == "replay" and not l.get("class"):
                            ok = True
                if ok:
                    result[f] = c
                    failing.discard(f)
            print(c[:8], "still failing:", len(failing), file=sys.stderr)
            if not failing:
                break
        for f in failing:
            result[f] = None
    finally:
        subprocess.run(["git", "-C", "/repo", "worktree", "remove", "--force", wt])
        shutil.rmtree(d, ignore_errors=True)
    json.dump(result, sys.stdout, indent=1)

main()
