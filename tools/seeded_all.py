#!/usr/bin/env python3
"""Re-runs the quick check of every stored seeded change (seeded/<name>/patch.diff) against a
scratch worktree of /repo's HEAD with the patch applied, and prints one line per change.
usage: tools/seeded_all.py [filter] [--tier quick|thorough]      (writes seeded/RESULTS.json)"""
import json, os, shutil, subprocess, sys, tempfile, time

HOME = os.path.dirname(os.path.dirname(os.path.abspath(__file__)))
ENV = dict(os.environ, GOFLAGS="-mod=mod", GOPROXY="off", GOSUMDB="off", GOTOOLCHAIN="local")

def main():
    args = [a for a in sys.argv[1:] if not a.startswith("--")]
    flt = args[0] if args else ""
    tier = sys.argv[sys.argv.index("--tier") + 1] if "--tier" in sys.argv else "quick"
    results = {}
    names = sorted(d for d in os.listdir(os.path.join(HOME, "seeded")) if os.path.isdir(os.path.join(HOME, "seeded", d)))
    for name in names:
        if flt and flt not in name:
            continue
        sd = os.path.join(HOME, "seeded", name)
        meta = json.load(open(os.path.join(sd, "meta.json")))
        pid = meta["property"]
        d = tempfile.mkdtemp(prefix="verif-seedall-", dir="/tmp")
        wt = os.path.join(d, "wt")
        subprocess.run(["git", "-C", "/repo", "worktree", "add", "-q", "--detach", wt, "HEAD"], check=True)
        try:
            r = subprocess.run(["git", "apply", "--3way", os.path.join(sd, "patch.diff")], cwd=wt, capture_output=True, text=True)
            if r.returncode != 0:
                r = subprocess.run(["git", "apply", os.path.join(sd, "patch.diff")], cwd=wt, capture_output=True, text=True)
            if r.returncode != 0:
                results[name] = {"verdict": "patch no longer applies", "detail": r.stderr[-200:]}
                print("%-52s patch no longer applies to HEAD" % name, flush=True)
                continue
            b = subprocess.run(["go", "build", "./..."], cwd=wt, env=ENV, capture_output=True, text=True)
            if b.returncode != 0:
                results[name] = {"verdict": "does not build on HEAD", "detail": b.stderr[-200:]}
                print("%-52s does not build on HEAD" % name, flush=True)
                continue
            vh = os.path.join(d, "home")
            os.makedirs(vh)
            os.symlink(os.path.join(HOME, "sim"), os.path.join(vh, "sim"))
            shutil.copy(os.path.join(HOME, "known_findings.json"), vh)
            shutil.copytree(os.path.join(HOME, "known"), os.path.join(vh, "known"))
            t0 = time.time()
            r = subprocess.run([os.path.join(HOME, "bin", "verifsim"), "check", pid, "--tier", tier, "--no-evidence"],
                               env=dict(os.environ, VERIF_REPO=wt, VERIF_HOME=vh, VERIF_MAX_VIOLATIONS="3"), capture_output=True, text=True)
            dt = time.time() - t0
            lines = [l for l in r.stdout.splitlines() if l.startswith("violation class") or l.startswith("regression")]
            verdict = "caught" if r.returncode == 1 and "VIOLATION property=" + pid in r.stdout else ("missed" if r.returncode == 0 else "infra exit %d" % r.returncode)
            results[name] = {"verdict": verdict, "seconds": round(dt, 1), "tier": tier, "report": [l[:300] for l in lines[:2]]}
            print("%-52s %-7s %5.0fs  %s" % (name, verdict, dt, (lines[0][:120] if lines else "")), flush=True)
        finally:
            subprocess.run(["git", "-C", "/repo", "worktree", "remove", "--force", wt], capture_output=True)
            shutil.rmtree(d, ignore_errors=True)
    if not flt:
        json.dump({"repo_head": subprocess.run(["git", "-C", "/repo", "rev-parse", "--short", "HEAD"], capture_output=True, text=True).stdout.strip(),
                   "tier": tier, "results": results}, open(os.path.join(HOME, "seeded", "RESULTS.json"), "w"), indent=1)
    n = sum(1 for v in results.values() if v["verdict"] == "caught")
    print("%d changes, %d caught" % (len(results), n))

main()
