package main

import (
	"bytes"
	"fmt"
	"io"
	"io/fs"
	"os"
	"os/exec"
	"path/filepath"
	"strings"
	"sync"
)

var (
	scratchMu  sync.Mutex
	scratchDir string
)

// scratch returns the per-invocation scratch directory (outside /repo and /verif,
// on tmpfs when available), creating it on first use. It is removed on exit.
func scratch() string {
	scratchMu.Lock()
	defer scratchMu.Unlock()
	if scratchDir != "" {
		return scratchDir
	}
	base := os.Getenv("VERIF_SCRATCH")
	if base == "" {
		base = "/dev/shm"
		if st, err := os.Stat(base); err != nil || !st.IsDir() {
			base = os.TempDir()
		}
	}
	d, err := os.MkdirTemp(base, "verifsim-")
	if err != nil {
		d, err = os.MkdirTemp(os.TempDir(), "verifsim-")
		if err != nil {
			fmt.Fprintln(os.Stderr, "verifsim: cannot create scratch:", err)
			os.Exit(2)
		}
	}
	scratchDir = d
	return d
}

func cleanupScratch() {
	scratchMu.Lock()
	defer scratchMu.Unlock()
	if scratchDir != "" {
		os.RemoveAll(scratchDir)
		scratchDir = ""
	}
}

func goEnv() []string {
	env := os.Environ()
	env = append(env, "GOFLAGS=-mod=mod", "GOPROXY=off", "GOSUMDB=off", "GOTOOLCHAIN=local", "CGO_ENABLED=1")
	return env
}

// copyTree copies the working tree of the library (no .git) to dst.
func copyTree(src, dst string) error {
	return filepath.WalkDir(src, func(p string, d fs.DirEntry, err error) error {
		if err != nil {
			return err
		}
		rel, _ := filepath.Rel(src, p)
		if d.IsDir() {
			if d.Name() == ".git" {
				return filepath.SkipDir
			}
			return os.MkdirAll(filepath.Join(dst, rel), 0o755)
		}
		if !d.Type().IsRegular() {
			return nil
		}
		in, err := os.Open(p)
		if err != nil {
			return err
		}
		defer in.Close()
		out, err := os.Create(filepath.Join(dst, rel))
		if err != nil {
			return err
		}
		if _, err := io.Copy(out, in); err != nil {
			out.Close()
			return err
		}
		return out.Close()
	})
}

// buildWorker builds verifworker against /repo's current working tree (or an
// instrumented scratch copy of it) and returns the path of the binary.
func buildWorker(cfg *checkCfg) string {
	sc := scratch()
	simDir := filepath.Join(home, "sim")
	lib := repoDir
	tags := "verif"
	if cfg.Instrument {
		lib = filepath.Join(sc, "lib")
		if err := os.RemoveAll(lib); err != nil {
			infra("%v", err)
		}
		sites, files, err := instrumentTree(repoDir, lib)
		if err != nil {
			infra("instrumenting %s: %v", repoDir, err)
		}
		fmt.Printf("instrumented scratch copy: %d files, %d yield points\n", files, sites)
		tags += ",instrumented"
	}
	// go.mod variant pointing at the tree to build against
	gm, err := os.ReadFile(filepath.Join(simDir, "go.mod"))
	if err != nil {
		infra("%v", err)
	}
	mod := strings.Replace(string(gm), "=> /repo", "=> "+lib, 1)
	modfile := filepath.Join(sc, "go.mod")
	if err := os.WriteFile(modfile, []byte(mod), 0o644); err != nil {
		infra("%v", err)
	}
	sum, err := os.ReadFile(filepath.Join(lib, "go.sum"))
	if err != nil {
		infra("%v", err)
	}
	if err := os.WriteFile(filepath.Join(sc, "go.sum"), sum, 0o644); err != nil {
		infra("%v", err)
	}
	bin := filepath.Join(sc, "verifworker")
	args := []string{"build", "-tags", tags, "-modfile=" + modfile, "-o", bin}
	if cfg.Race {
		args = append(args, "-race")
	}
	args = append(args, "./cmd/verifworker")
	cmd := exec.Command("go", args...)
	cmd.Dir = simDir
	cmd.Env = goEnv()
	var out bytes.Buffer
	cmd.Stdout, cmd.Stderr = &out, &out
	if err := cmd.Run(); err != nil {
		// a tree that does not compile is not a verdict about the property
		infra("building the worker against %s failed: %v\n%s", lib, err, out.String())
	}
	return bin
}
