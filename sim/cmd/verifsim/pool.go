package main

import (
	"bufio"
	"encoding/json"
	"fmt"
	"io"
	"os"
	"os/exec"
	"runtime"
	"strings"
	"sync"
	"time"

	"verifsim/kernel"
)

// wline mirrors the worker's output lines.
type wline struct {
	T       string          `json:"t"`
	Run     int             `json:"run"`
	Seed    uint64          `json:"seed"`
	Hash    uint64          `json:"hash"`
	Outcome *kernel.Outcome `json:"outcome"`
	Case    json.RawMessage `json:"case"`
	Replay  string          `json:"replay"`
	Class   string          `json:"class"`
	Detail  string          `json:"detail"`
	Err     string          `json:"err"`
}

type tailBuffer struct {
	mu  sync.Mutex
	buf []byte
	max int
}

func (t *tailBuffer) Write(p []byte) (int, error) {
	t.mu.Lock()
	defer t.mu.Unlock()
	t.buf = append(t.buf, p...)
	if len(t.buf) > t.max {
		t.buf = t.buf[len(t.buf)-t.max:]
	}
	return len(p), nil
}

func (t *tailBuffer) String() string {
	t.mu.Lock()
	defer t.mu.Unlock()
	return string(t.buf)
}

// headTail keeps the beginning (where Go prints the fatal message and the
// crashing goroutine) and the end of a stream.
type headTail struct {
	mu   sync.Mutex
	head []byte
	tail tailBuffer
}

func (h *headTail) Write(p []byte) (int, error) {
	h.mu.Lock()
	if len(h.head) < 64<<10 {
		n := 64<<10 - len(h.head)
		if n > len(p) {
			n = len(p)
		}
		h.head = append(h.head, p[:n]...)
	}
	h.mu.Unlock()
	return h.tail.Write(p)
}

func (h *headTail) String() string {
	h.mu.Lock()
	defer h.mu.Unlock()
	return string(h.head)
}

type workerProc struct {
	id       int
	cmd      *exec.Cmd
	stdin    io.WriteCloser
	stderr   *headTail
	inflight int
	started  time.Time
	from, to int // current chunk
	hasChunk bool
	closing  bool
	killed   bool // killed by the watchdog
}

type event struct {
	w   *workerProc
	l   *wline
	eof bool
}

var (
	liveMu sync.Mutex
	live   = map[*workerProc]bool{}
)

func killWorkers() {
	liveMu.Lock()
	defer liveMu.Unlock()
	for w := range live {
		if w.cmd.Process != nil {
			w.cmd.Process.Kill()
		}
	}
}

type suspect struct {
	run    int
	kind   string // "died" | "timeout"
	stderr string
}

type violation struct {
	Run    int
	Seed   uint64
	Class  string
	Detail string
	Replay string
}

type aggregate struct {
	runs       int
	counters   map[string]int64
	nontrivial map[uint64]bool
	states     map[string]bool
	samples    []json.RawMessage
	violations []violation
	errors     []string
	suspects   []suspect
	traces     map[int]uint64
}

func newAggregate() *aggregate {
	return &aggregate{counters: map[string]int64{}, nontrivial: map[uint64]bool{}, states: map[string]bool{}, traces: map[int]uint64{}}
}

type poolOpts struct {
	bin       string
	cfg       *checkCfg
	engine    string
	seed      uint64
	tier      string
	from, to  int
	replayDir string
	noShrink  bool
	workers   int
	env       []string
	maxViol   int // stop early after this many violations (0 = no limit)
	// known: violation classes listed as known findings; they do not count towards maxViol (a
	// known finding hit many times must not end the search before an unknown one is met)
	known map[string]bool
}

func workerEnv(extra []string) []string {
	// scrubbed environment: nothing of the host's font/locale configuration reaches the library
	env := []string{"PATH=" + os.Getenv("PATH"), "HOME=/nonexistent", "LANG=C", "GOTRACEBACK=all", "GOMAXPROCS=2"}
	return append(env, extra...)
}

func startWorker(o *poolOpts, id int, events chan<- event) (*workerProc, error) {
	sampleEvery := (o.to - o.from) / 6
	if sampleEvery < 1 {
		sampleEvery = 1
	}
	args := []string{"serve", "-engine", o.engine, "-seed", fmt.Sprint(o.seed), "-tier", o.tier,
		"-replaydir", o.replayDir, "-sample-every", fmt.Sprint(sampleEvery)}
	if o.cfg != nil && o.cfg.GenSeparately {
		args = append(args, "-gen-subprocess")
	}
	if o.noShrink {
		args = append(args, "-no-shrink")
	}
	cmd := exec.Command(o.bin, args...)
	cmd.Env = workerEnv(o.env)
	stdin, err := cmd.StdinPipe()
	if err != nil {
		return nil, err
	}
	stdout, err := cmd.StdoutPipe()
	if err != nil {
		return nil, err
	}
	w := &workerProc{id: id, cmd: cmd, stdin: stdin, stderr: &headTail{tail: tailBuffer{max: 32 << 10}}, inflight: -1}
	cmd.Stderr = w.stderr
	if err := cmd.Start(); err != nil {
		return nil, err
	}
	liveMu.Lock()
	live[w] = true
	liveMu.Unlock()
	go func() {
		sc := bufio.NewScanner(stdout)
		sc.Buffer(make([]byte, 1<<20), 256<<20)
		for sc.Scan() {
			var l wline
			if err := json.Unmarshal(sc.Bytes(), &l); err != nil {
				continue
			}
			events <- event{w: w, l: &l}
		}
		cmd.Wait()
		liveMu.Lock()
		delete(live, w)
		liveMu.Unlock()
		events <- event{w: w, eof: true}
	}()
	return w, nil
}

// runPool executes runs [from,to) and aggregates the results.
func runPool(o *poolOpts) *aggregate { return runPoolRecording(o, nil) }

func runPoolRecording(o *poolOpts, onRun func(*wline)) *aggregate {
	agg := newAggregate()
	type chunk struct{ from, to int }
	var queue []chunk
	step := o.cfg.Chunk
	if step <= 0 {
		step = 10
	}
	for a := o.from; a < o.to; a += step {
		b := a + step
		if b > o.to {
			b = o.to
		}
		queue = append(queue, chunk{a, b})
	}
	nw := o.workers
	if nw <= 0 {
		nw = runtime.NumCPU()
	}
	if o.cfg.WorkerCap > 0 && nw > o.cfg.WorkerCap {
		nw = o.cfg.WorkerCap
	}
	if nw > len(queue) {
		nw = len(queue)
	}
	if nw == 0 {
		return agg
	}
	events := make(chan event, 1024)
	alive := 0
	nextID := 0
	spawn := func() {
		w, err := startWorker(o, nextID, events)
		nextID++
		if err != nil {
			agg.errors = append(agg.errors, "start worker: "+err.Error())
			return
		}
		_ = w
		alive++
	}
	for i := 0; i < nw; i++ {
		spawn()
	}
	assign := func(w *workerProc) {
		unknown := len(agg.suspects)
		for _, v := range agg.violations {
			if !o.known[v.Class] {
				unknown++
			}
		}
		if len(queue) == 0 || (o.maxViol > 0 && unknown >= o.maxViol) {
			w.closing = true
			w.hasChunk = false
			w.stdin.Close()
			return
		}
		c := queue[0]
		queue = queue[1:]
		w.from, w.to, w.hasChunk = c.from, c.to, true
		fmt.Fprintf(w.stdin, "%d %d\n", c.from, c.to)
	}
	timeout := time.Duration(o.cfg.RunTimeoutS) * time.Second
	if timeout == 0 {
		timeout = 10 * time.Minute
	}
	tick := time.NewTicker(time.Second)
	defer tick.Stop()
	workers := map[*workerProc]bool{}
	for alive > 0 {
		select {
		case ev := <-events:
			w := ev.w
			workers[w] = true
			if ev.eof {
				alive--
				delete(workers, w)
				if w.closing && w.inflight < 0 {
					continue
				}
				// unexpected death
				kind := "died"
				if w.killed {
					kind = "timeout"
				}
				if w.inflight >= 0 {
					agg.suspects = append(agg.suspects, suspect{run: w.inflight, kind: kind, stderr: w.stderr.String()})
					if w.hasChunk && w.inflight+1 < w.to {
						queue = append(queue, chunk{w.inflight + 1, w.to})
					}
				} else {
					agg.errors = append(agg.errors, fmt.Sprintf("worker %d exited unexpectedly outside a run: %s", w.id, lastLines(w.stderr.String(), 5)))
					if w.hasChunk {
						queue = append(queue, chunk{w.from, w.to})
					}
				}
				if len(queue) > 0 && len(agg.errors) < 20 {
					spawn()
				}
				continue
			}
			l := ev.l
			switch l.T {
			case "ready":
				assign(w)
			case "chunkdone":
				w.hasChunk = false
				if o.cfg.GenSeparately && len(queue) > 0 {
					// a fresh process per chunk: every chunk starts with the package-level state of
					// the library untouched
					w.closing = true
					w.stdin.Close()
					spawn()
				} else {
					assign(w)
				}
			case "start":
				w.inflight = l.Run
				w.started = time.Now()
			case "error":
				w.inflight = -1
				agg.errors = append(agg.errors, fmt.Sprintf("run %d: %s", l.Run, l.Err))
			case "run":
				w.inflight = -1
				agg.add(l)
				if onRun != nil && l.Outcome != nil {
					onRun(l)
				}
			}
		case <-tick.C:
			now := time.Now()
			for w := range workers {
				if w.inflight >= 0 && now.Sub(w.started) > timeout && !w.killed {
					w.killed = true
					w.cmd.Process.Kill()
				}
			}
		}
	}
	return agg
}

func (agg *aggregate) add(l *wline) {
	agg.runs++
	o := l.Outcome
	if o == nil {
		return
	}
	for k, v := range o.Counters {
		if strings.HasPrefix(k, "max.") { // high-water marks, not sums
			if v > agg.counters[k] {
				agg.counters[k] = v
			}
			continue
		}
		agg.counters[k] += v
	}
	if o.Nontrivial {
		agg.nontrivial[l.Hash] = true
	}
	for _, s := range o.States {
		agg.states[s] = true
	}
	agg.traces[l.Run] = o.Trace
	if len(l.Case) > 0 && len(agg.samples) < 6 && len(l.Case) < 20000 {
		agg.samples = append(agg.samples, l.Case)
	}
	if l.Class != "" {
		agg.violations = append(agg.violations, violation{Run: l.Run, Seed: l.Seed, Class: l.Class, Detail: l.Detail, Replay: l.Replay})
	}
}

func lastLines(s string, n int) string {
	ls := strings.Split(strings.TrimSpace(s), "\n")
	if len(ls) > n {
		ls = ls[len(ls)-n:]
	}
	return strings.Join(ls, " | ")
}

func fatalClass(stderr string) (class, first string) { return kernel.FatalClass(stderr) }
