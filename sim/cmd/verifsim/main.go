// verifsim is the orchestrator: it builds the worker from /repo's current
// working tree, fans simulated runs out over worker processes, aggregates
// their results, writes the evidence file and prints VIOLATION / KNOWN-FINDING
// lines. Exit codes: 0 property held on everything explored; 1 violation (with
// a VIOLATION line); 2 infrastructure trouble (never a verdict).
package main

import (
	"flag"
	"fmt"
	"os"
	"os/signal"
	"path/filepath"
	"strconv"
	"syscall"
)

var (
	home    string // /verif
	repoDir string // /repo
)

func infra(format string, args ...interface{}) {
	fmt.Fprintf(os.Stderr, "verifsim: INFRASTRUCTURE: "+format+"\n", args...)
	cleanupScratch()
	os.Exit(2)
}

func envInt(name string, def uint64) uint64 {
	if s := os.Getenv(name); s != "" {
		if v, err := strconv.ParseUint(s, 10, 64); err == nil {
			return v
		}
		if v, err := strconv.ParseInt(s, 10, 64); err == nil {
			return uint64(v)
		}
	}
	return def
}

func main() {
	exe, err := os.Executable()
	if err != nil {
		infra("%v", err)
	}
	exe, _ = filepath.EvalSymlinks(exe)
	home = filepath.Dir(filepath.Dir(exe))
	if h := os.Getenv("VERIF_HOME"); h != "" {
		home = h
	}
	repoDir = "/repo"
	if r := os.Getenv("VERIF_REPO"); r != "" {
		repoDir = r
	}
	if len(os.Args) < 2 {
		fmt.Fprintln(os.Stderr, "usage: verifsim check <id> [--tier quick|thorough] | replay <file> | selftest <id> | instrument <src> <dst>")
		os.Exit(2)
	}
	sig := make(chan os.Signal, 1)
	signal.Notify(sig, syscall.SIGINT, syscall.SIGTERM)
	go func() {
		<-sig
		killWorkers()
		cleanupScratch()
		os.Exit(2)
	}()

	cmd := os.Args[1]
	switch cmd {
	case "check":
		fs := flag.NewFlagSet("check", flag.ExitOnError)
		tier := fs.String("tier", os.Getenv("VERIF_TIER"), "quick|thorough")
		runs := fs.Int("runs", 0, "override the number of runs")
		noEvidence := fs.Bool("no-evidence", false, "do not write the evidence file")
		fs.IntVar(&runsFrom, "from", 0, "first run index (with --runs: explore a slice of the run space)")
		if len(os.Args) < 3 {
			infra("check needs a property id")
		}
		id := os.Args[2]
		fs.Parse(os.Args[3:])
		if *tier == "" {
			*tier = "quick"
		}
		cfg, ok := checks[id]
		if !ok {
			infra("no check for property %q", id)
		}
		code := runCheck(cfg, *tier, envInt("VERIF_SEED", 1), *runs, !*noEvidence)
		cleanupScratch()
		os.Exit(code)
	case "replay":
		if len(os.Args) < 3 {
			infra("replay needs a file")
		}
		code := runReplay(os.Args[2])
		cleanupScratch()
		os.Exit(code)
	case "selftest":
		if len(os.Args) < 3 {
			infra("selftest needs a property id")
		}
		cfg, ok := checks[os.Args[2]]
		if !ok {
			infra("no check for property %q", os.Args[2])
		}
		fs := flag.NewFlagSet("selftest", flag.ExitOnError)
		seeds := fs.Int("runs", 64, "runs per configuration")
		fs.Parse(os.Args[3:])
		code := runSelftest(cfg, *seeds)
		cleanupScratch()
		os.Exit(code)
	case "instrument":
		if len(os.Args) < 4 {
			infra("instrument <src> <dst>")
		}
		n, files, err := instrumentTree(os.Args[2], os.Args[3])
		if err != nil {
			infra("%v", err)
		}
		fmt.Printf("instrumented %d files, %d tick sites\n", files, n)
	default:
		infra("unknown command %q", cmd)
	}
}
