package main

import (
	"bytes"
	"context"
	"encoding/json"
	"fmt"
	"os"
	"os/exec"
	"path/filepath"
	"sort"
	"strings"
	"time"

	"verifsim/kernel"
)

// ---------------------------------------------------------------- known findings

type finding struct {
	Property string `json:"property"`
	Status   string `json:"status"` // "known" | "fixed"
	Commit   string `json:"commit,omitempty"`
	Class    string `json:"class"` // exact violation class (oracle@site)
	What     string `json:"what"`
	Replay   string `json:"replay,omitempty"` // path relative to /verif
	Line     string `json:"line,omitempty"`   // "fixed: property=<id> <commit> <what failed>"
}

type findingsFile struct {
	Comment  string    `json:"comment,omitempty"`
	Findings []finding `json:"findings"`
}

func loadFindings() []finding {
	b, err := os.ReadFile(filepath.Join(home, "known_findings.json"))
	if err != nil {
		return nil
	}
	var ff findingsFile
	if err := json.Unmarshal(b, &ff); err != nil {
		infra("known_findings.json: %v", err)
	}
	return ff.Findings
}

// ---------------------------------------------------------------- replay in a fresh process

type replayResult struct {
	class  string
	detail string
	died   bool
	timed  bool
	stderr string
	err    error
}

func replayFresh(bin, file string, env []string, timeout time.Duration) replayResult {
	ctx, cancel := context.WithTimeout(context.Background(), timeout)
	defer cancel()
	cmd := exec.CommandContext(ctx, bin, "replay", "-file", file)
	cmd.Env = workerEnv(env)
	var out, errb bytes.Buffer
	cmd.Stdout, cmd.Stderr = &out, &errb
	err := cmd.Run()
	if ctx.Err() == context.DeadlineExceeded {
		return replayResult{timed: true, class: "hang@run"}
	}
	if err != nil {
		if ee, ok := err.(*exec.ExitError); ok && ee.ExitCode() == 2 && !strings.Contains(errb.String(), "goroutine ") {
			return replayResult{err: fmt.Errorf("worker: %s", lastLines(errb.String(), 3))}
		}
		c, first := fatalClass(errb.String())
		return replayResult{died: true, class: c, detail: first, stderr: errb.String()}
	}
	for _, ln := range strings.Split(out.String(), "\n") {
		if strings.TrimSpace(ln) == "" {
			continue
		}
		var l wline
		if json.Unmarshal([]byte(ln), &l) == nil && l.T == "replay" {
			return replayResult{class: l.Class, detail: l.Detail}
		}
	}
	return replayResult{err: fmt.Errorf("no replay line in worker output: %s", lastLines(errb.String(), 3))}
}

// genCase asks the worker for the case of one run (used when a run killed its worker).
func genCase(bin string, cfg *checkCfg, seed uint64, tier string, run int, env []string) (json.RawMessage, error) {
	cmd := exec.Command(bin, "gen", "-engine", cfg.Engine, "-seed", fmt.Sprint(seed), "-tier", tier, "-run", fmt.Sprint(run))
	cmd.Env = workerEnv(env)
	out, err := cmd.Output()
	if err != nil {
		return nil, err
	}
	return json.RawMessage(bytes.TrimSpace(out)), nil
}

// ---------------------------------------------------------------- the check

func engineEnv(cfg *checkCfg) []string {
	var env []string
	if cfg.Race {
		env = append(env, "GORACE=halt_on_error=1 history_size=7", "GODEBUG=asyncpreemptoff=1", "GOMAXPROCS=1")
	}
	return env
}

// runsFrom: first run index (--from; exploration of a slice of the run space, e.g. when hunting)
var runsFrom int

func runCheck(cfg *checkCfg, tier string, seed uint64, runsOverride int, writeEvidence bool) int {
	start := time.Now()
	if tier != "quick" && tier != "thorough" {
		infra("unknown tier %q", tier)
	}
	fmt.Printf("VERIF_SEED=%d property=%s engine=%s tier=%s\n", seed, cfg.Property, cfg.Engine, tier)
	bin := buildWorker(cfg)
	fmt.Printf("worker built from %s in %.1fs\n", repoDir, time.Since(start).Seconds())
	env := engineEnv(cfg)
	replayDir := filepath.Join(home, "replays", cfg.Property)
	timeout := time.Duration(cfg.RunTimeoutS) * time.Second
	if timeout == 0 {
		timeout = 10 * time.Minute
	}
	var window uint64
	if cfg.Race {
		window = calibrateRaceWindow(bin, env)
		env = append(env, fmt.Sprintf("VERIF_WINDOW_TICKS=%d", window))
	}

	if tier == "thorough" {
		// reduced determinism self-test: the same runs in fresh processes under two
		// worker/GOMAXPROCS configurations must give identical event-log digests
		if !miniSelftest(bin, cfg, seed, env) {
			infra("determinism self-test failed: the engine does not replay exactly; no verdict")
		}
	}

	exit := 0
	reported := 0
	knownHit := map[string]bool{}
	findings := loadFindings()
	known := map[string]finding{}

	// 1. stored replays of known / fixed findings of this property
	for _, f := range findings {
		if f.Property != cfg.Property {
			continue
		}
		if f.Status == "known" {
			known[f.Class] = f
		}
		if f.Replay == "" {
			continue
		}
		p := filepath.Join(home, f.Replay)
		rr := replayFresh(bin, p, env, timeout)
		if rr.err != nil {
			infra("replaying %s: %v", p, rr.err)
		}
		switch {
		case f.Status == "known" && rr.class == f.Class:
			fmt.Printf("KNOWN-FINDING: property=%s %s [%s]\n", cfg.Property, f.What, f.Class)
			knownHit[f.Class] = true
		case f.Status == "known":
			fmt.Printf("note: known finding %q no longer reproduces from %s (got %q)\n", f.Class, f.Replay, rr.class)
		case f.Status == "fixed" && rr.class != "":
			// a repaired defect came back
			fmt.Printf("regression of a fixed finding (%s): %s\n", f.Commit, rr.detail)
			fmt.Printf("VIOLATION property=%s replay=%s\n", cfg.Property, p)
			exit = 1
			reported++
		}
	}

	knownClasses := map[string]bool{}
	for c := range known {
		knownClasses[c] = true
	}
	// 2. seeded search
	n := cfg.Runs[tier]
	if runsOverride > 0 {
		n = runsOverride
	}
	agg := runPool(&poolOpts{bin: bin, cfg: cfg, engine: cfg.Engine, seed: seed, tier: tier, from: runsFrom, to: runsFrom + n,
		replayDir: replayDir, env: env, maxViol: maxViolations(), known: knownClasses})
	if agg.runs+len(agg.suspects) < n {
		fmt.Printf("note: the search stopped after %d of %d runs (%d violating runs reached the limit VERIF_MAX_VIOLATIONS)\n", agg.runs, n, maxViolations())
	}

	// 3. runs that killed or stalled their worker: reproduce alone, twice, in fresh processes
	// (at most two candidates per failure class are reproduced and minimised: a tree with a
	// real race kills almost every worker the same way)
	perClass := map[string]int{}
	confirmed := map[string]bool{}
	for _, s := range agg.suspects {
		key, _ := fatalClass(s.stderr)
		if s.kind == "timeout" {
			key = "hang@run"
		}
		if confirmed[key] || perClass[key] >= 2 {
			agg.counters["suspects_not_reexecuted_same_class"]++
			continue
		}
		perClass[key]++
		nViol := len(agg.violations)
		c, err := genCase(bin, cfg, seed, tier, s.run, env)
		if err != nil {
			agg.errors = append(agg.errors, fmt.Sprintf("run %d %s and its case cannot be regenerated: %v", s.run, s.kind, err))
			continue
		}
		class, first := fatalClass(s.stderr)
		if s.kind == "timeout" {
			class, first = "hang@run", fmt.Sprintf("no result within the %v wall-clock backstop", timeout)
		}
		rp := &kernel.Replay{Engine: cfg.Engine, Property: cfg.Property, Seed: kernel.RunSeed(seed, cfg.Property, s.run),
			Run: s.run, Tier: tier, Class: class, Detail: first, Case: c}
		p, err := kernel.WriteReplay(replayDir, rp)
		if err != nil {
			infra("%v", err)
		}
		same := 0
		for k := 0; k < 2; k++ {
			if rr := replayFresh(bin, p, env, timeout); rr.class == class {
				same++
			}
		}
		switch {
		case same == 2 && s.kind == "timeout" && cfg.RefOnHang:
			// attribute the hang: does it persist with the objects under test left out?
			// (a tenth of the backstop: the fresh-only execution must be an order of magnitude
			// faster before the time is blamed on the reused objects)
			if rr := replayFresh(bin, p, append(append([]string{}, env...), "VERIF_REFERENCE_ONLY=1"), timeout/10); rr.timed {
				agg.counters["shared_hang_not_attributable_to_this_property"]++
				fmt.Printf("note: run %d exceeds the %v backstop and still needs more than a tenth of it with the reused objects left out (slow or looping library code shared by fresh objects; not a statement about reuse), replay kept at %s\n", s.run, timeout, p)
			} else {
				agg.violations = append(agg.violations, violation{Run: s.run, Seed: rp.Seed, Class: "hang@reused-object-only", Detail: "the run completes when only fresh objects are used, and hangs with the reused objects", Replay: p})
			}
		case same == 2 && class == "harness-race":
			agg.errors = append(agg.errors, fmt.Sprintf("run %d: the race detector reported a race inside the harness itself (%s), replay kept at %s", s.run, first, p))
		case same == 2:
			// minimise in sub-processes (the failure kills the process that shows it)
			sh := exec.Command(bin, "shrink", "-file", p)
			sh.Env = workerEnv(env)
			if out, err := sh.CombinedOutput(); err != nil {
				fmt.Printf("note: minimising %s failed (%v): %s\n", p, err, lastLines(string(out), 2))
			}
			agg.violations = append(agg.violations, violation{Run: s.run, Seed: rp.Seed, Class: class, Detail: first, Replay: p})
		case s.kind == "timeout":
			// a slow run on a loaded machine: no verdict for this run, not an alarm and not a failure of the batch
			agg.counters["slow_runs_over_backstop_once"]++
			fmt.Printf("note: run %d exceeded the %v backstop once but completed on re-execution (%d/2 timeouts)\n", s.run, timeout, same)
		default:
			agg.errors = append(agg.errors, fmt.Sprintf("run %d %s once (%s) but not on re-execution (%d/2): not reproducible, no verdict", s.run, s.kind, class, same))
		}
		if len(agg.violations) > nViol {
			confirmed[key] = true
		}
	}

	// 4. confirm every violation by replaying its (minimised) file in a fresh process
	byClass := map[string][]violation{}
	var classes []string
	for _, v := range agg.violations {
		if _, ok := byClass[v.Class]; !ok {
			classes = append(classes, v.Class)
		}
		byClass[v.Class] = append(byClass[v.Class], v)
	}
	sort.Strings(classes)
	for _, class := range classes {
		vs := byClass[class]
		if f, ok := known[class]; ok {
			if !knownHit[class] {
				fmt.Printf("KNOWN-FINDING: property=%s %s [%s] (%d runs)\n", cfg.Property, f.What, class, len(vs))
				knownHit[class] = true
			}
			agg.counters["known_finding_hits"] += int64(len(vs))
			continue
		}
		// report the smallest replay of the class
		best := vs[0]
		for _, v := range vs[1:] {
			if fileSize(v.Replay) < fileSize(best.Replay) {
				best = v
			}
		}
		rr := replayFresh(bin, best.Replay, env, timeout)
		if rr.err != nil {
			infra("replaying %s: %v", best.Replay, rr.err)
		}
		if rr.class == "hang@run" && class == "hang@reused-object-only" {
			rr.class = class
		}
		if rr.class != class {
			agg.errors = append(agg.errors, fmt.Sprintf("violation %s of run %d does not reproduce in a fresh process (got %q): harness nondeterminism, replay kept at %s", class, best.Run, rr.class, best.Replay))
			continue
		}
		fmt.Printf("violation class %s (%d runs), e.g. run %d seed %d: %s\n", class, len(vs), best.Run, best.Seed, best.Detail)
		fmt.Printf("VIOLATION property=%s replay=%s\n", cfg.Property, best.Replay)
		exit = 1
		reported++
	}

	wall := time.Since(start).Seconds()
	if writeEvidence {
		writeEvidenceFile(cfg, tier, seed, agg, wall, reported, n)
	}
	printSummary(cfg, agg, wall)
	if len(agg.errors) > 0 {
		for i, e := range agg.errors {
			if i < 10 {
				fmt.Fprintln(os.Stderr, "verifsim: error:", e)
			}
		}
		if exit == 0 {
			fmt.Fprintf(os.Stderr, "verifsim: INFRASTRUCTURE: %d run(s) could not be executed or reproduced; no verdict\n", len(agg.errors))
			return 2
		}
	}
	if agg.runs == 0 && exit == 0 {
		fmt.Fprintln(os.Stderr, "verifsim: INFRASTRUCTURE: no run executed")
		return 2
	}
	return exit
}

func fileSize(p string) int64 {
	st, err := os.Stat(p)
	if err != nil {
		return 1 << 60
	}
	return st.Size()
}

func printSummary(cfg *checkCfg, agg *aggregate, wall float64) {
	fmt.Printf("%s: %d runs, %d distinct non-trivial, %d distinct states, %.1fs (%.0f runs/hour)\n",
		cfg.Property, agg.runs, len(agg.nontrivial), len(agg.states), wall, float64(agg.runs)/wall*3600)
	var zero []string
	for _, k := range kernel.SortedKeys(agg.counters) {
		if strings.HasPrefix(k, "probe.") || strings.HasPrefix(k, "fault.") {
			fmt.Printf("  %-50s %d\n", k, agg.counters[k])
		}
	}
	for _, p := range expectedProbes[cfg.Engine] {
		if agg.counters[p] == 0 {
			zero = append(zero, p)
		}
	}
	if len(zero) > 0 {
		fmt.Printf("  WARNING: probes that never fired in this batch: %s\n", strings.Join(zero, ", "))
	}
}

// expectedProbes lists, per engine, the probes a healthy batch must hit.
var expectedProbes = map[string][]string{
	"reuse": {"probe.shaper_cache_other_face_of_same_font", "probe.shaper_cache_eviction_possible", "probe.shape_after_in_place_face_change",
		"probe.hb_buffer_reused", "probe.segmenter_reused", "probe.wrapper_reused", "probe.wrapper_paragraph_abandoned", "probe.useg_reused"},
	"indexsim": {"probe.entry_reused", "probe.entry_rescanned", "probe.entry_dropped", "probe.symlink", "probe.rename", "probe.crash_image_decoded_as_error",
		"probe.crash_image_decoded_as_new", "probe.crash_image_decoded_as_old", "fault.crash_model_0", "fault.crash_model_1", "fault.crash_model_2", "fault.crash_model_3", "fault.crash_model_4",
		"fault.cache_bytes_corrupted", "fault.write_eio", "fault.write_enospc", "fault.write_short", "fault.mtime_collision", "fault.enumerated_prefixes", "probe.half_copied_font"},
	"faultdisk": {"fault.byte_trunc", "fault.byte_flip", "fault.byte_set16", "fault.byte_set32", "fault.byte_zero", "fault.byte_swap", "fault.io_eio", "fault.io_eof", "fault.io_short",
		"outcome.open-error", "outcome.opened", "check.pristine_equivalence"},
	"schedsim":  {"probe.switch_landed_inside_library_call", "plan.sweep", "plan.random", "op.glyphs", "op.fontq", "op.hbshape", "op.shape", "op.split", "op.wrap", "op.fmadd", "op.fmresolve", "op.vars"},
	"segreuse":  {"probe.useg_reused", "probe.useg_iterators_interleaved", "probe.useg_input_scribbled"},
	"itemreuse": {"probe.segmenter_reused", "probe.bidi_mixed", "probe.vertical_orientation_resolved"},
	"fontmapsim": {"probe.repeat_lookup_cache_enabled", "probe.lookup_after_other_lookups", "probe.cache_eviction", "probe.add_after_lookups", "probe.system_fonts_used",
		"answered_by_step_1", "answered_by_step_2", "answered_by_step_3", "answered_by_step_4", "answered_by_step_5"},
}

// ---------------------------------------------------------------- evidence

func writeEvidenceFile(cfg *checkCfg, tier string, seed uint64, agg *aggregate, wall float64, violations, planned int) {
	ops, faults, probes, other := map[string]int64{}, map[string]int64{}, map[string]int64{}, map[string]int64{}
	for k, v := range agg.counters {
		switch {
		case strings.HasPrefix(k, "op."):
			ops[k[3:]] = v
		case strings.HasPrefix(k, "fault."):
			faults[k[6:]] = v
		case strings.HasPrefix(k, "probe."):
			probes[k[6:]] = v
		default:
			other[k] = v
		}
	}
	var zero []string
	for _, p := range expectedProbes[cfg.Engine] {
		if agg.counters[p] == 0 {
			zero = append(zero, p)
		}
	}
	samples := make([]interface{}, 0, len(agg.samples))
	for _, s := range agg.samples {
		var v interface{}
		if json.Unmarshal(s, &v) == nil {
			samples = append(samples, v)
		}
	}
	if len(samples) == 0 {
		samples = append(samples, "no run completed")
	}
	var simTime int64
	for _, k := range []string{"ticks", "simclock_span", "ops_total"} {
		simTime += agg.counters[k]
	}
	var totalOps int64
	for _, v := range ops {
		totalOps += v
	}
	cov := map[string]interface{}{
		"evaluations":                   agg.runs,
		"distinct_nontrivial":           len(agg.nontrivial),
		"rule":                          cfg.Rule,
		"samples":                       samples,
		"exhaustive":                    false,
		"planned_runs":                  planned,
		"runs_per_hour":                 float64(agg.runs) / wall * 3600,
		"operations_by_kind":            ops,
		"operations_total":              totalOps,
		"faults_fired_by_kind":          faults,
		"probes":                        probes,
		"probes_never_fired":            zero,
		"other_counters":                other,
		"distinct_states":               len(agg.states),
		"distinct_state_measure":        cfg.StateRule,
		"simulated_time":                map[string]interface{}{"measure": cfg.TimeMeasure, "ticks": agg.counters["ticks"], "simulated_clock_span": agg.counters["simclock_span"]},
		"components_real":               cfg.Real,
		"components_stub":               cfg.Stub,
		"infrastructure_errors":         len(agg.errors),
		"violations_by_class_in_search": classCounts(agg.violations),
	}
	if agg.counters["exhaustive_cases"] > 0 {
		cov["exhaustive_subspace_cases"] = agg.counters["exhaustive_cases"]
	}
	ev := map[string]interface{}{
		"property_id": cfg.Property,
		"tier":        tier,
		"seed":        seed,
		"level":       cfg.Level,
		"coverage":    cov,
		"assumptions": cfg.Assumptions,
		"wall_s":      wall,
		"violations":  violations,
		"engine":      cfg.Engine,
	}
	b, err := json.MarshalIndent(ev, "", " ")
	if err != nil {
		infra("evidence: %v", err)
	}
	dir := filepath.Join(home, "evidence")
	os.MkdirAll(dir, 0o755)
	tmp := filepath.Join(dir, cfg.Property+".json.tmp")
	if err := os.WriteFile(tmp, b, 0o644); err != nil {
		infra("evidence: %v", err)
	}
	if err := os.Rename(tmp, filepath.Join(dir, cfg.Property+".json")); err != nil {
		infra("evidence: %v", err)
	}
}

func classCounts(vs []violation) map[string]int {
	m := map[string]int{}
	for _, v := range vs {
		m[v.Class]++
	}
	return m
}

// ---------------------------------------------------------------- replay command

func runReplay(path string) int {
	rp, err := kernel.ReadReplay(path)
	if err != nil {
		infra("%v", err)
	}
	cfg, ok := checks[rp.Property]
	if !ok {
		infra("replay file names unknown property %q", rp.Property)
	}
	bin := buildWorker(cfg)
	timeout := time.Duration(cfg.RunTimeoutS) * time.Second
	if timeout == 0 {
		timeout = 10 * time.Minute
	}
	rr := replayFresh(bin, path, engineEnv(cfg), timeout)
	if rr.err != nil {
		infra("%v", rr.err)
	}
	if rr.timed && cfg.RefOnHang {
		if r2 := replayFresh(bin, path, append(engineEnv(cfg), "VERIF_REFERENCE_ONLY=1"), timeout/10); r2.timed {
			fmt.Printf("replay of %s: exceeds the %v backstop, and still needs more than a tenth of it with the reused objects left out: shared slowness, no violation of %s\n", path, timeout, rp.Property)
			return 0
		}
		rr.class, rr.detail = "hang@reused-object-only", "the run completes when only fresh objects are used, and hangs with the reused objects"
	}
	if rr.class == "" {
		fmt.Printf("replay of %s: no violation (expected %s)\n", path, rp.Class)
		return 0
	}
	fmt.Printf("replay of %s: %s: %s\n", path, rr.class, rr.detail)
	if rr.class != rp.Class {
		fmt.Printf("note: the file was recorded with class %s\n", rp.Class)
	}
	fmt.Printf("VIOLATION property=%s replay=%s\n", rp.Property, path)
	return 1
}

// maxViolations: the search stops early once this many violating runs were seen
// (VERIF_MAX_VIOLATIONS overrides; used when surveying a tree with many defects).
func maxViolations() int {
	return int(envInt("VERIF_MAX_VIOLATIONS", 25))
}

// calibrateRaceWindow runs the canary (two tasks sharing one *font.Face, which the
// documentation declares unsafe) in fresh processes with a growing amount of unrelated
// library work between the conflicting accesses. The race detector must report the
// canary at distance 0 — otherwise the baton has become a happens-before edge or the
// detector is not active, and nothing this check says could be believed (exit 2). The
// largest distance still reported, in ticks, is the detector's history window.
func calibrateRaceWindow(bin string, env []string) uint64 {
	dir := scratch()
	run := func(gap int) (raced bool, ticks uint64) {
		f := filepath.Join(dir, fmt.Sprintf("canary-%d.json", gap))
		c := fmt.Sprintf(`{"engine":"schedsim","property":"C17","class":"canary","case":{"canary":true,"gap":%d,"fonts":[],"tasks":[],"plan":{}}}`, gap)
		if err := os.WriteFile(f, []byte(c), 0o644); err != nil {
			infra("%v", err)
		}
		cmd := exec.Command(bin, "replay", "-file", f)
		cmd.Env = workerEnv(env)
		var out, errb bytes.Buffer
		cmd.Stdout, cmd.Stderr = &out, &errb
		err := cmd.Run()
		if strings.Contains(errb.String(), "WARNING: DATA RACE") {
			class, _ := kernel.FatalClass(errb.String())
			if !strings.Contains(class, "extentsCache") {
				infra("canary: unexpected race report %s:\n%s", class, lastLines(errb.String(), 30))
			}
			return true, 0
		}
		if err != nil {
			infra("canary (gap %d) failed: %v: %s", gap, err, lastLines(errb.String(), 5))
		}
		var l wline
		for _, ln := range strings.Split(out.String(), "\n") {
			if json.Unmarshal([]byte(ln), &l) == nil && l.T == "replay" && l.Outcome != nil {
				return false, uint64(l.Outcome.Counters["ticks"])
			}
		}
		infra("canary (gap %d): no result", gap)
		return false, 0
	}
	if raced, _ := run(0); !raced {
		infra("CANARY SILENT: two tasks sharing one *font.Face produced no race report; the scheduler's hand-off is visible to the race detector (or -race is not active). No verdict.")
	}
	last := 0
	var perGap uint64
	for _, gap := range []int{1, 2, 3, 4, 6, 8, 12, 16, 24, 32, 64} {
		raced, ticks := run(gap)
		if !raced {
			perGap = ticks / uint64(gap)
			break
		}
		last = gap
	}
	if perGap == 0 {
		perGap = 68000
	}
	window := uint64(last) * perGap
	if window == 0 {
		window = perGap / 2
	}
	fmt.Printf("canary: race on the shared Face reported; detector history window calibrated at %d ticks (%d shaping calls of distance)\n", window, last)
	return window
}

func miniSelftest(bin string, cfg *checkCfg, seed uint64, env []string) bool {
	type rec struct {
		trace uint64
		class string
	}
	var ref map[int]rec
	for ci, c := range []struct {
		workers int
		procs   string
	}{{2, "1"}, {8, "4"}} {
		e := append(append([]string{}, env...), "GOMAXPROCS="+c.procs)
		if cfg.Race {
			e = env
		}
		cur := map[int]rec{}
		stTier := "thorough"
		if cfg.SelftestFrom > 0 {
			stTier = "quick" // SelftestFrom is expressed in the quick tier's run numbering
		}
		o := &poolOpts{bin: bin, cfg: cfg, engine: cfg.Engine, seed: seed, tier: stTier, from: cfg.SelftestFrom, to: cfg.SelftestFrom + 24,
			replayDir: filepath.Join(scratch(), fmt.Sprintf("selftest-%d", ci)), env: e, noShrink: true, workers: c.workers}
		runPoolRecording(o, func(l *wline) { cur[l.Run] = rec{l.Outcome.Trace, l.Class} })
		if ref == nil {
			ref = cur
			continue
		}
		for r, a := range ref {
			if b, ok := cur[r]; ok && a != b {
				fmt.Printf("self-test: run %d diverges between configurations: %+v vs %+v\n", r, a, b)
				return false
			}
		}
	}
	fmt.Println("determinism self-test: 24 runs x 2 configurations identical")
	return true
}
