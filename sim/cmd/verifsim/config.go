package main

// checkCfg describes how one property is checked.
type checkCfg struct {
	Property   string
	Engine     string
	Level      string // evidence level
	Instrument bool   // build against an instrumented scratch copy (Tick() yield points)
	Race       bool   // build with -race
	Runs       map[string]int
	Chunk      int
	WorkerCap  int // max parallel workers (0 = NumCPU)
	// RunTimeoutS is the wall-clock backstop per run (seconds); a run that
	// exceeds it twice in fresh processes is reported as a hang.
	RunTimeoutS int
	// RefOnHang: on a reproducible wall-clock timeout, re-execute the case with only the
	// reference side (VERIF_REFERENCE_ONLY=1); if that hangs too, the hang is shared by
	// fresh and reused objects and says nothing about this property.
	RefOnHang   bool
	Rule        string
	Assumptions []string
	Real        []string
	Stub        []string
	// SelftestFrom: first run index of the determinism self-tests (quick tier numbering), so that
	// they cover the seeded families of an engine whose first runs walk an enumerated list
	SelftestFrom int
	// GenSeparately: workers generate the cases of a chunk in a sub-process and serve one chunk
	// per process, so that an executing process has not run any library code before its first
	// simulation starts
	GenSeparately bool
	TimeMeasure   string // what "simulated time" means for this engine
	StateRule     string // distinct-state measure
}

var checks = map[string]*checkCfg{
	"C13": {
		Property: "C13", Engine: "reuse", Level: "exploration",
		Runs: map[string]int{"quick": 6000, "thorough": 400000}, Chunk: 25, RunTimeoutS: 90, RefOnHang: true,
		Rule: "one case = one seeded operation history (5-60 operations) on long-lived reusable objects (HarfbuzzShaper, harfbuzz.Buffer, font.Face, shaping.Segmenter, LineWrapper, segmenter.Segmenter) over a pool of corpus faces, several of them sharing one parsed font with different variations/ppem; cache sizes and op mix are per-run swarm choices. Every operation is compared with the same call on a freshly constructed object and earlier results are re-compared until their documented invalidation point. distinct = distinct hash of the generated case; non-trivial = at least one reuse probe fired in the run (cache hit on a font seen before, other face of same font, eviction possible, in-place face change followed by a query/shape, buffer/segmenter/wrapper actually reused, paragraph abandoned midway, iterators interleaved).",
		Assumptions: []string{
			"a freshly constructed object is the specification (its own correctness is C01-C04/C06/C07, not decided here)",
			"arguments are deep-copied per call, so mutation of inputs by the library is not an oracle here",
			"in-place mutation of a Face between Shape calls is only generated in runs whose font cache size stays 0 (documented restriction of harfbuzz.NewFont)",
		},
		Real:        []string{"shaping.HarfbuzzShaper", "shaping.fontLRU", "harfbuzz.Buffer + plan cache", "font.Face + extentsCache", "shaping.Segmenter", "shaping.LineWrapper + wrapBuffer", "segmenter.Segmenter", "font parsing (bytes.Reader, fault-free)"},
		Stub:        []string{"none (no I/O, clock or scheduler is involved in this property; the simulator owns the operation history and the knobs)"},
		TimeMeasure: "operations executed (no clock exists in this surface)",
		StateRule:   "distinct (previous op kind > op kind) pairs, cache sizes, face setting modes at query time, wrapper line/run count buckets",
	},
	"C14": {
		Property: "C14", Engine: "fontmapsim", Level: "exploration",
		Runs: map[string]int{"quick": 8000, "thorough": 300000}, Chunk: 20, RunTimeoutS: 120,
		Rule: "one case = one seeded history (10-120 operations) of AddFace/AddFont/UseSystemFonts/SetQuery/SetScript/SetRuneCacheSize/ResolveFace/ResolveFaceForLang on one fontscan.FontMap over a database of corpus fonts with seeded family names (shared families with different aspects, generic families, colliding concatenations) and aspects; every ResolveFace is compared with an uncached replica rebuilt from the add-history (M1) and with an executable model of the documented priority (M2). distinct = distinct hash of the generated case; non-trivial = at least one of: repeated lookup with the cache enabled, lookup after other lookups, eviction, add after lookups, system fonts used, file fault fired.",
		Assumptions: []string{
			"retainsBestMatches (aspect narrowing, property C15) and the content of the family-substitution step are taken from the library (read through verif-tagged hooks); their position in the priority order is modelled independently",
			"when no entry covers the rune and system fonts are in use, any database member is accepted (the property allows an arbitrary face; which one depends on lazy loading)",
			"fault family (system font files broken after indexing) is checked for totality only",
		},
		Real:        []string{"fontscan.FontMap (ResolveFace, buildCandidates, runeLRU, AddFace, AddFont, UseSystemFonts)", "fontscan.initSystemFonts / refreshSystemFontsIndex over a simulator-owned directory", "fontscan match.go / substitutions", "font parsing"},
		Stub:        []string{"system font directories (hook VerifFontDirs -> scratch tmpfs directory)", "logger (no-op)"},
		TimeMeasure: "operations executed (no clock in this surface)",
		StateRule:   "distinct (answering step 1-5, database size bucket, #families in query, script set?, repeated lookup?) tuples and cache sizes",
	},
	"C16": {
		Property: "C16", Engine: "indexsim", Level: "fault_enumeration",
		Runs: map[string]int{"quick": 3000, "thorough": 60000}, Chunk: 8, RunTimeoutS: 300,
		Rule: "one case = one seeded run of one of four families: (history) 3-15 file-system mutations (add/remove/replace/touch/rename/mkdir/rmtree/symlink, half-copied fonts, junk files, overlapping and symlinked roots) with every mtime set by the simulated clock, interleaved with boots through the real refreshSystemFontsIndex, crashes of the cache write (5 crash models at seeded write-call/byte points), corruption at rest and write faults; (clockfault) the same plus same-mtime replaces, clock jumps backwards and extreme stamps; (exhaustive) a scanned index whose every prefix length and every single byte (0x00, 0xFF, one bit) is decoded; (synthetic) round trip of synthetic indexes (empty sets, 255 scripts, 65535-byte strings, extreme stamps, NaN aspects) with strided enumeration. distinct = distinct hash of the generated case; non-trivial = a fault fired (crash image, corruption, write fault, mtime collision), an index entry was reused across boots, a sub-space was enumerated or a non-empty synthetic index round-tripped.",
		Assumptions: []string{
			"a boot with no cache file (same real code) and scanFontFootprints(nil, dirs) are the reference for incremental refresh",
			"tmpfs round-trips os.Chtimes nanosecond stamps (every stamp is set by the simulator; directories get a constant stamp)",
			"stored-byte corruption (bit flips, zeroed/torn sectors) that decodes to a different well-formed index is allowed by the property and only counted; if such an index then poisons the next refresh that is counted too, not reported",
			"a path whose content changed while its mtime stayed what the last boot saw may keep its previous entry (path+mtime is the documented reuse key)",
		},
		Real:        []string{"fontscan/serialize.go (serializeTo, deserializeIndex, file wrappers)", "fontscan/scan.go + scandir.go (scanFontFootprints, consume, WalkDir)", "refreshSystemFontsIndex incl. assertValid", "footprint construction", "kernel tmpfs as directory tree"},
		Stub:        []string{"cache-file device during crash/write-fault replays (faultdisk.WFile + crash models)", "clock (os.Chtimes from a simulated counter)", "font directory list (hook VerifFontDirs)", "logger (no-op)"},
		TimeMeasure: "span of the simulated mtime clock in ns (simclock_span); boots executed",
		StateRule:   "distinct (boot: #files bucket, #entries reused bucket, #rescanned bucket, old cache readable) and (crash model, decode outcome) tuples",
	},
}

// order in which `check all` runs
var checkOrder = []string{"C13", "C14", "C16", "C09", "C17", "C06", "C07"}

func init() {
	checks["C09"] = &checkCfg{
		Property: "C09", Engine: "faultdisk", Level: "fault_enumeration", Instrument: true, SelftestFrom: 30150,
		Runs: map[string]int{"quick": 100000, "thorough": 4000000}, Chunk: 200, RunTimeoutS: 180,
		Rule: "one case = one corpus font image (sfnt, TTC, WOFF, dfont) served by the simulated disk with a fault plan, then opened (ParseTTC or FontMap.AddFont) and, if it opens, queried exhaustively per face (cmap, advances, extents, outlines/bitmaps/SVG, names, metrics, variations, ppem) and shaped in three directions, all under tick and allocation budgets linear in the image size. Families: (systematic) truncation at every table boundary +-{0,1,2,4}, inside every table header and at every directory record, then every 32-bit directory field and every 16/32-bit field of the first 32 bytes of every table set to 0, 1, max and near-size values and every 16-bit one to its own value +-1, walked by run index (quick: a VERIF_SEED-chosen window of 30000; thorough: the complete list, reported as exhaustive_subspace_cases); (pristine) fault-free, must equal a bytes.Reader load; (random) 1-3 stored-byte faults (truncation, bit flip, 16/32-bit field overwrite with boundary values, zeroed sector, swapped table bodies; 75% aimed at table headers, directory records and boundaries) and 0-2 transient I/O faults (EIO, early EOF, legal short read at the k-th call), 4% of them structure-aware plans that redirect composite-glyph components into reference cycles, 3% dimension-desynchronisation plans (a count that several tables must agree on - axes, glyphs, long metrics, shared tuples, strikes - nudged by +-1, +-2, x2, /2 in one table only), 2% adversarial grafts (a table replaced by a small well-formed table written by the simulator: GSUB expansion chains n^k, self-recursive contextual lookups, cmap format 12 with huge, overlapping or inverted groups); (guided, 1.2% of the seeded runs) a coverage-guided campaign of 150 (thorough: 400) executions on one font: a population of fault lists is evolved by adding, perturbing, neighbouring (a second field of the same structure) and dropping stored-byte faults and I/O faults, a child joining the population when it reaches an instrumented site (yield point, if/else branch, switch/select clause) or an order of magnitude of steps/allocation that no earlier execution of the campaign reached; a violation is reported, minimised and stored as the explicit failing execution. On plain sfnt images without I/O faults every table the loader returns must equal the image bytes at the directory's offset and length (reader fidelity). distinct = distinct hash of the case; non-trivial = a stored-byte fault was applied or an I/O fault actually fired (or pristine equivalence was checked).",
		Assumptions: []string{
			"step budget 40M + 4000 ticks/byte for load and for the queries of one face, 2G + 4000 ticks/byte for the shaping calls of one face (the shaper bounds its own work by an operation budget that does not depend on the image, so a flat ceiling is the only sound budget there), allocation budget 256 MiB + 600 B/byte of image (plus a flat 4 GiB once the battery shapes, for the same reason); calibrated on the pristine corpus (evidence: other_counters.max.*_permille_of_budget)",
			"go/ast text-splice instrumentation preserves semantics (the pristine family compares against an uninstrumented-reader load inside the same build; the baseline suite is not run on the instrumented copy)",
			"time spent inside the standard library (zlib for WOFF) is only covered by the wall-clock backstop",
			"panic sites listed in known_findings.json are printed as KNOWN-FINDING, any other site is a violation",
		},
		Real:        []string{"font/opentype loader (sfnt, TTC, WOFF, dfont)", "font.NewFont and all table parsers", "font.Face queries (cmap, metrics, glyf/CFF/CFF2 outlines, bitmaps, SVG, names, variations)", "shaping.HarfbuzzShaper + harfbuzz", "fontscan.FontMap.AddFont"},
		Stub:        []string{"the disk (faultdisk.File behind opentype.Resource)"},
		TimeMeasure: "ticks = instrumented yield points executed (function entries + loop iterations)",
		StateRule:   "distinct (container kind, faulted table tag, fault kind, outcome in {open-error, opened}) tuples",
	}
}

func init() {
	checks["C17"] = &checkCfg{
		Property: "C17", Engine: "schedsim", Level: "exploration", Instrument: true, Race: true, GenSeparately: true,
		Runs: map[string]int{"quick": 1920, "thorough": 64000}, Chunk: 4, RunTimeoutS: 300,
		Rule: "one case = one simulation: 2-6 (thorough: up to 64) tasks, real goroutines, share 1-3 freshly parsed corpus fonts (TrueType, CFF, CFF2, variable, AAT, bitmap, SVG) and run seeded programs over their own faces/shapers/buffers/segmenters/wrappers/font maps (a quarter of the simulations also install 2-4 corpus fonts as system fonts in a scratch directory, so that per-task font maps call UseSystemFonts and load faces lazily from the shared global index) plus read-only calls on the shared *font.Font, under a schedule decided by the case: sweep plans (runs come in blocks of 16 that share fonts, programs and the parked task A; A is parked at 16 evenly spaced points of its program while all other tasks run to completion, then resumes), random plans (1-12 seeded switch points, some clustered inside one pair of calls) and sequential plans. The race detector sees the tasks as concurrent for their whole lifetime (the hand-off creates no happens-before edge). distinct = distinct hash of the case; non-trivial = at least one hand-off landed inside a library call (between two tasks, not at task start/end).",
		Assumptions: []string{
			"the Go race detector's happens-before model decides 'data race'; a conflicting access is only reported while the earlier one is inside the other goroutine's history window (calibrated with the canary on every invocation; sweep plans park tasks so that every part of a program is within the window of some park point of its block)",
			"GOMAXPROCS=1 and asyncpreemptoff=1: the physical interleaving is the plan's; hardware memory-model effects are not executed",
			"solo reference runs use separately parsed fonts, so no first-use memo of the shared fonts is filled before the concurrent phase",
			"UseSystemFonts (process-global index behind sync.Once) is part of task programs with switching suspended for its duration (a task parked inside the Once would block the others for ever); the tasks remain concurrent for the race detector, and the caller is switched away from right after it in most such runs",
			"lazily initialised package-level state is only unfilled the first time a process meets it: cases are generated in a sub-process, the coordinator calls no library lookup before the tasks, non-sweep plans run the concurrent phase before the solo reference runs, and every chunk of 4 runs gets a fresh worker process",
		},
		Real:        []string{"the whole library, instrumented with yield points at every function entry and loop head (go/ast text splice), built with -race", "font.NewFace/Face queries", "harfbuzz.NewFont/Buffer.Shape", "shaping.HarfbuzzShaper/Segmenter/LineWrapper", "fontscan.FontMap (AddFace/SetQuery/ResolveFace, UseSystemFonts over a scratch font directory)"},
		Stub:        []string{"the goroutine scheduler (cooperative baton, seeded plan)", "system font directories (hook VerifFontDirs -> scratch tmpfs directory)", "logger (no-op)"},
		TimeMeasure: "ticks = instrumented yield points executed during the concurrent phases",
		StateRule:   "distinct unordered pairs of operation kinds that ran in different tasks of one simulation, and (plan kind, #tasks bucket)",
	}
}

func init() {
	checks["C06"] = &checkCfg{
		Property: "C06", Engine: "segreuse", Level: "exploration",
		Runs: map[string]int{"quick": 300000, "thorough": 6000000}, Chunk: 500, RunTimeoutS: 60, RefOnHang: true,
		Rule: "one case = one seeded history (4-40 operations) on one segmenter.Segmenter: Init with texts of 0-64 runes over a class-representative alphabet derived at start-up from the library's tables (one rune per distinct combination of line/grapheme/word class, East-Asian width, Extended_Pictographic, general category) plus regional indicators and real-text samples, in adversarial size patterns (long, short, empty, long; shrinking); creation of line/grapheme/word iterators; Next on any live iterator in any interleaving; the caller scribbling over the slice it passed to Init. Every Next is compared with the boundary list a fresh Segmenter yields, and the protocol invariants (non-empty, consecutive, slice of the input, coverage of the input, last line mandatory) are evaluated against the input. distinct = distinct hash of the case; non-trivial = the segmenter was re-initialised, iterators were interleaved or the input slice was scribbled over.",
		Assumptions: []string{
			"RESTRICTED CLAIM: only the history clauses of C06 (independence from earlier use, iteration protocol) are decided; that the boundaries are those of UAX #14/#29 is a pure function of the rune string and is not decided (a fresh Segmenter is trusted for the rules)",
			"iterators are used only until the next Init (they read the segmenter's storage)",
		},
		Real:        []string{"segmenter.Segmenter (Init, LineIterator, GraphemeIterator, WordIterator)", "unicodedata class tables"},
		Stub:        []string{"none"},
		TimeMeasure: "operations executed",
		StateRule:   "distinct (previous op > op) pairs and text length buckets",
	}
	checks["C07"] = &checkCfg{
		Property: "C07", Engine: "itemreuse", Level: "exploration",
		Runs: map[string]int{"quick": 60000, "thorough": 2000000}, Chunk: 100, RunTimeoutS: 60, RefOnHang: true,
		Rule: "one case = one seeded history (3-25 Split calls) on one shaping.Segmenter over a pool of corpus faces: mixed LTR/RTL/digits/brackets/neutrals/vertical CJK texts and texts drawn from the faces' cmaps, random sub-ranges, the 8 meaningful directions (horizontal, vertical with unresolved, upright and sideways orientation), languages, and three Fontmap kinds (fixed slice, a script-aware map whose answers depend on the last SetScript, a real fontscan.FontMap). Each result is compared with a fresh Segmenter and checked against the invariants: consecutive non-empty runs covering the range, text/size/features untouched, single bidi parity (re-derived with an independent bidi.Paragraph on the sub-range), single strong script, uniform orientation, face resolution of every font-selecting rune, language compatible with script; and it must stay intact until the next Split. distinct = distinct hash of the case; non-trivial = the segmenter was actually reused.",
		Assumptions: []string{
			"RESTRICTED CLAIM: the history clause, the ownership rule and the listed invariants are decided; that the chosen run boundaries are the right ones beyond those invariants is a pure input-output question and is not decided",
			"x/text bidi is trusted for embedding levels",
		},
		Real:        []string{"shaping.Segmenter.Split (splitByBidi, splitByScript, enforceLanguages, splitByVertOrientation, splitByFace)", "fontscan.FontMap as Fontmap"},
		Stub:        []string{"none"},
		TimeMeasure: "operations executed",
		StateRule:   "distinct (#runs bucket, direction, fontmap kind, sub-range?) tuples",
	}
}
