package main

import (
	"encoding/json"
	"fmt"
	"path/filepath"
)

// runSelftest proves determinism of an engine: the same runs are executed in
// fresh processes under different worker counts and GOMAXPROCS values, and the
// per-run event-log digests, verdicts and counters are compared.
func runSelftest(cfg *checkCfg, runs int) int {
	bin := buildWorker(cfg)
	type conf struct {
		workers int
		procs   string
	}
	confs := []conf{{1, "1"}, {16, "4"}, {16, "16"}, {4, "1"}, {16, "2"}, {8, "16"}}
	if cfg.Race {
		confs = []conf{{1, "1"}, {16, "1"}, {4, "1"}, {8, "1"}}
	}
	type rec struct {
		trace    uint64
		class    string
		counters string
	}
	var ref map[int]rec
	bad := 0
	for ci, c := range confs {
		env := append(engineEnv(cfg), "GOMAXPROCS="+c.procs)
		replayDir := filepath.Join(scratch(), fmt.Sprintf("selftest-replays-%d", ci))
		cur := map[int]rec{}
		o := &poolOpts{bin: bin, cfg: cfg, engine: cfg.Engine, seed: envInt("VERIF_SEED", 1), tier: "quick", from: cfg.SelftestFrom, to: cfg.SelftestFrom + runs,
			replayDir: replayDir, env: env, noShrink: true, workers: c.workers}
		agg := runPoolRecording(o, func(l *wline) {
			cs, _ := json.Marshal(l.Outcome.Counters)
			cur[l.Run] = rec{l.Outcome.Trace, l.Class, string(cs)}
		})
		if len(agg.errors) > 0 || len(agg.suspects) > 0 {
			fmt.Printf("selftest: configuration %+v: %d errors, %d suspects\n", c, len(agg.errors), len(agg.suspects))
			bad++
		}
		if ref == nil {
			ref = cur
			fmt.Printf("selftest: reference configuration %+v: %d runs\n", c, len(cur))
			continue
		}
		diff := 0
		for r, a := range ref {
			if b, ok := cur[r]; !ok || a != b {
				if diff < 5 {
					fmt.Printf("selftest: DIVERGENCE run %d under %+v:\n  ref %+v\n  got %+v\n", r, c, a, cur[r])
				}
				diff++
			}
		}
		fmt.Printf("selftest: configuration %+v: %d runs, %d divergent\n", c, len(cur), diff)
		bad += diff
	}
	if bad > 0 {
		fmt.Println("selftest: FAILED (the engine is not deterministic)")
		return 2
	}
	fmt.Println("selftest: ok")
	return 0
}
