// verifworker links the library under test and executes simulated runs.
// It is built by `verifsim check` from /repo's current working tree (or an
// instrumented scratch copy of it) for every check invocation.
package main

import (
	"bufio"
	"bytes"
	"encoding/json"
	"flag"
	"fmt"
	"os"
	"os/exec"
	"runtime/debug"
	"strings"

	"verifsim/engines"
	"verifsim/kernel"
)

type line struct {
	T        string           `json:"t"`
	Run      int              `json:"run"`
	Seed     uint64           `json:"seed,omitempty"`
	Hash     uint64           `json:"hash,omitempty"`
	Outcome  *kernel.Outcome  `json:"outcome,omitempty"`
	Case     json.RawMessage  `json:"case,omitempty"`
	Replay   string           `json:"replay,omitempty"`
	Class    string           `json:"class,omitempty"`
	Detail   string           `json:"detail,omitempty"`
	Err      string           `json:"err,omitempty"`
	Shrunk   *kernel.Outcome  `json:"shrunk,omitempty"`
	Counters map[string]int64 `json:"counters,omitempty"`
}

var out = bufio.NewWriterSize(os.Stdout, 1<<16)

func emit(l line) {
	b, err := json.Marshal(l)
	if err != nil {
		fmt.Fprintln(os.Stderr, "worker: marshal:", err)
		os.Exit(2)
	}
	out.Write(b)
	out.WriteByte('\n')
	out.Flush()
}

func fatal(args ...interface{}) {
	fmt.Fprintln(os.Stderr, append([]interface{}{"verifworker:"}, args...)...)
	os.Exit(2)
}

func main() {
	if len(os.Args) < 2 {
		fatal("usage: verifworker serve|replay|gen|shrink ...")
	}
	debug.SetMaxStack(256 << 20)
	cmd := os.Args[1]
	fs := flag.NewFlagSet(cmd, flag.ExitOnError)
	engName := fs.String("engine", "", "engine name")
	vseed := fs.Uint64("seed", 1, "VERIF_SEED")
	tier := fs.String("tier", "quick", "tier")
	replayDir := fs.String("replaydir", "", "where replay files go")
	file := fs.String("file", "", "replay file")
	run := fs.Int("run", 0, "run index")
	sampleEvery := fs.Int("sample-every", 0, "attach the case of every n-th run")
	noShrink := fs.Bool("no-shrink", false, "do not minimise")
	genSub := fs.Bool("gen-subprocess", false, "generate the cases of each chunk in a separate process")
	from := fs.Int("from", 0, "genchunk: first run")
	to := fs.Int("to", 0, "genchunk: one past the last run")
	fs.Parse(os.Args[2:])
	kernel.VerifSeed = *vseed
	kernel.ReferenceOnly = os.Getenv("VERIF_REFERENCE_ONLY") == "1"

	switch cmd {
	case "serve":
		eng := mustEngine(*engName)
		genSeparately = *genSub
		serve(eng, *vseed, *tier, *replayDir, *sampleEvery, *noShrink)
	case "genchunk":
		// one JSON line per run: {"run": r, "case": ...}
		eng := mustEngine(*engName)
		for r := *from; r < *to; r++ {
			c, err := eng.Generate(kernel.RunSeed(*vseed, eng.Property(), r), *tier, r)
			if err != nil {
				emit(line{T: "gen", Run: r, Err: err.Error()})
				continue
			}
			emit(line{T: "gen", Run: r, Case: c})
		}
	case "gen":
		eng := mustEngine(*engName)
		seed := kernel.RunSeed(*vseed, eng.Property(), *run)
		c, err := eng.Generate(seed, *tier, *run)
		if err != nil {
			fatal(err)
		}
		os.Stdout.Write(c)
		fmt.Println()
	case "replay":
		rp, err := kernel.ReadReplay(*file)
		if err != nil {
			fatal(err)
		}
		eng := mustEngine(rp.Engine)
		o, err := eng.Execute(rp.Case)
		if err != nil {
			fatal("execute:", err)
		}
		l := line{T: "replay", Outcome: o}
		if o.Violation != nil {
			l.Class = o.Violation.Class()
			l.Detail = o.Violation.Detail
		}
		emit(l)
	case "shrink":
		// Minimises a replay whose failure kills the process (race report, fatal error):
		// every candidate is executed in a fresh sub-process of this binary.
		rp, err := kernel.ReadReplay(*file)
		if err != nil {
			fatal(err)
		}
		eng := mustEngine(rp.Engine)
		tmp := *file + ".cand"
		defer os.Remove(tmp)
		budget := 60
		test := func(cand json.RawMessage) bool {
			if budget <= 0 {
				return false
			}
			budget--
			c2 := *rp
			c2.Case = cand
			b, _ := json.Marshal(&c2)
			if os.WriteFile(tmp, b, 0o644) != nil {
				return false
			}
			cmd := exec.Command(os.Args[0], "replay", "-file", tmp)
			var errb bytes.Buffer
			cmd.Stderr = &errb
			outb, err := cmd.Output()
			if err == nil {
				var l line
				for _, ln := range bytes.Split(outb, []byte("\n")) {
					if json.Unmarshal(ln, &l) == nil && l.T == "replay" {
						return l.Class == rp.Class
					}
				}
				return false
			}
			class, _ := kernel.FatalClass(errb.String())
			return class == rp.Class
		}
		min := eng.Shrink(rp.Case, rp.Class, test)
		rp.Case, rp.Minimal = min, true
		b, _ := json.MarshalIndent(rp, "", " ")
		if err := os.WriteFile(*file, b, 0o644); err != nil {
			fatal(err)
		}
	default:
		fatal("unknown command", cmd)
	}
}

func mustEngine(name string) kernel.Engine {
	e, err := engines.Get(name)
	if err != nil {
		fatal(err)
	}
	return e
}

// serve executes chunks of runs named on stdin ("from to" per line, to exclusive).
func serve(eng kernel.Engine, vseed uint64, tier, replayDir string, sampleEvery int, noShrink bool) {
	sc := bufio.NewScanner(os.Stdin)
	emit(line{T: "ready"})
	for sc.Scan() {
		txt := strings.TrimSpace(sc.Text())
		if txt == "" {
			continue
		}
		var from, to int
		if _, err := fmt.Sscanf(txt, "%d %d", &from, &to); err != nil {
			fatal("bad chunk line:", txt)
		}
		pre := map[int]line{}
		if genSeparately {
			// The cases are generated by another process: generation calls into the library
			// (fonts, cmaps, script lookups) and would otherwise fill, race-free and before any
			// task runs, package-level state that the library initialises lazily on first use.
			cmd := exec.Command(os.Args[0], "genchunk", "-engine", eng.Name(), "-seed", fmt.Sprint(vseed), "-tier", tier,
				"-from", fmt.Sprint(from), "-to", fmt.Sprint(to))
			cmd.Stderr = os.Stderr
			b, err := cmd.Output()
			if err != nil {
				fatal("genchunk:", err)
			}
			for _, ln := range bytes.Split(b, []byte("\n")) {
				var l line
				if len(ln) > 0 && json.Unmarshal(ln, &l) == nil && l.T == "gen" {
					pre[l.Run] = l
				}
			}
		}
		for r := from; r < to; r++ {
			if genSeparately {
				if _, ok := pre[r]; !ok {
					fatal("genchunk produced no case for run", r)
				}
			}
			oneRun(eng, vseed, tier, replayDir, r, sampleEvery, noShrink, pre)
		}
		emit(line{T: "chunkdone", Run: to})
	}
}

// genSeparately: serve obtains the cases of a chunk from a `genchunk` sub-process
var genSeparately bool

func oneRun(eng kernel.Engine, vseed uint64, tier, replayDir string, r, sampleEvery int, noShrink bool, pre map[int]line) {
	seed := kernel.RunSeed(vseed, eng.Property(), r)
	emit(line{T: "start", Run: r, Seed: seed}) // write-ahead: the orchestrator knows what was in flight
	var c json.RawMessage
	var err error
	if p, ok := pre[r]; ok {
		if p.Err != "" {
			emit(line{T: "error", Run: r, Err: "generate: " + p.Err})
			return
		}
		c = p.Case
	} else {
		c, err = eng.Generate(seed, tier, r)
	}
	if err != nil {
		emit(line{T: "error", Run: r, Err: "generate: " + err.Error()})
		return
	}
	o, err := eng.Execute(c)
	if err != nil {
		emit(line{T: "error", Run: r, Err: "execute: " + err.Error()})
		return
	}
	l := line{T: "run", Run: r, Seed: seed, Hash: kernel.HashBytes(c), Outcome: o}
	if sampleEvery > 0 && r%sampleEvery == 0 {
		l.Case = c
	}
	if o.Violation != nil {
		class := o.Violation.Class()
		min := c
		minimal := false
		if !noShrink {
			min = eng.Shrink(c, class, func(cand json.RawMessage) bool {
				oo, err := eng.Execute(cand)
				return err == nil && oo.Violation != nil && oo.Violation.Class() == class
			})
			minimal = true
		}
		detail := o.Violation.Detail
		if oo, err := eng.Execute(min); err == nil && oo.Violation != nil && oo.Violation.Class() == class {
			detail = oo.Violation.Detail
			l.Shrunk = oo
		} else {
			// the minimised case does not fail the same way in-process: keep the original
			min, minimal = c, false
		}
		p, err := kernel.WriteReplay(replayDir, &kernel.Replay{
			Engine: eng.Name(), Property: eng.Property(), Seed: seed, Run: r, Tier: tier,
			Class: class, Detail: detail, Minimal: minimal, Case: min,
		})
		if err != nil {
			emit(line{T: "error", Run: r, Err: "write replay: " + err.Error()})
			return
		}
		l.Replay, l.Class, l.Detail = p, class, detail
	}
	emit(l)
}
