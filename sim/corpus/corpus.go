// Package corpus gives the engines access to the ~750-face font corpus shipped
// with the dependency module github.com/go-text/typesetting-utils (already in
// the module cache; embedded in the worker binary, so nothing is read from disk
// at run time).
package corpus

import (
	"bytes"
	"compress/gzip"
	"encoding/binary"
	"io/fs"
	"sort"
	"strings"
	"sync"

	hbdata "github.com/go-text/typesetting-utils/harfbuzz"
	otdata "github.com/go-text/typesetting-utils/opentype"
	"github.com/go-text/typesetting/font"
	"verifsim/faultdisk"
)

var (
	once  sync.Once
	files []string
)

func isFont(name string) bool {
	l := strings.ToLower(name)
	for _, e := range []string{".ttf", ".otf", ".ttc", ".dfont", ".woff", ".otb"} {
		if strings.HasSuffix(l, e) {
			return true
		}
	}
	return false
}

// Files lists every font file of the corpus as "ot:<path>" or "hb:<path>", sorted.
func Files() []string {
	once.Do(func() {
		walk := func(prefix string, f fs.FS) {
			fs.WalkDir(f, ".", func(p string, d fs.DirEntry, err error) error {
				if err == nil && !d.IsDir() && isFont(p) {
					files = append(files, prefix+p)
				}
				return nil
			})
		}
		walk("ot:", otdata.Files)
		walk("hb:", hbdata.Files)
		sort.Strings(files)
	})
	return files
}

// Bytes returns the content of a corpus file (a fresh copy).
func Bytes(name string) []byte {
	var (
		b   []byte
		err error
	)
	switch {
	case strings.HasPrefix(name, "synth:"):
		return synth(name)
	case strings.HasPrefix(name, "ot:"):
		b, err = otdata.Files.ReadFile(name[3:])
	case strings.HasPrefix(name, "hb:"):
		b, err = hbdata.Files.ReadFile(name[3:])
	default:
		panic("corpus: bad name " + name)
	}
	if err != nil {
		panic("corpus: " + err.Error())
	}
	return b
}

var fontCache = map[string][]*font.Font{}

// Fonts parses a corpus file through the plain bytes.Reader path and returns its
// fonts (nil if the loader rejects it or panics on it: such files are unusable
// as workload and are C09's business). Results are cached: a *font.Font is
// immutable by contract. Not safe for concurrent use (callers are single-threaded).
func Fonts(name string) (out []*font.Font) {
	if f, ok := fontCache[name]; ok {
		return f
	}
	defer func() {
		if r := recover(); r != nil {
			out = nil
		}
		fontCache[name] = out
	}()
	faces, err := font.ParseTTC(bytes.NewReader(Bytes(name)))
	if err != nil {
		return nil
	}
	for _, f := range faces {
		out = append(out, f.Font)
	}
	return out
}

// Well-known files used to bias workloads.
var (
	Variable = []string{
		"ot:common/Commissioner-VF.ttf", "ot:common/Estedad-VF.ttf", "ot:common/Mada-VF.ttf",
		"ot:common/Selawik-VF.ttf", "ot:common/SourceSans-VF.ttf", "ot:common/SourceSans-VF-HVAR.ttf",
		"ot:common/NotoSansCJKjp-VF.otf", "ot:toys/CFF2-VF.otf", "ot:toys/Var1.ttf", "ot:toys/GVAR-no-HVAR.ttf",
		"hb:harfbuzz_reference/text-rendering-tests/fonts/AdobeVFPrototype-Subset.otf",
		"hb:harfbuzz_reference/text-rendering-tests/fonts/Selawik-variable.ttf",
		"hb:harfbuzz_reference/in-house/fonts/HBTest-VF.ttf",
		"hb:fonts/SourceSansVariable-Roman.anchor.ttf", "hb:fonts/SourceSerifVariable-Roman-VVAR.abc.ttf",
		"hb:fonts/SourceSansVariable-Roman.modcomp.ttf", "hb:fonts/TestGVAREight.ttf",
	}
	Bitmap = []string{
		"ot:bitmap/IBM3161-bitmap.otb", "ot:bitmap/NotoColorEmoji.ttf", "ot:toys/CBLC1.ttf", "ot:toys/CBLC2.ttf",
		"ot:toys/Sbix1.ttf", "ot:toys/Sbix2.ttf", "ot:toys/Sbix3.ttf",
	}
	Common = []string{
		"ot:common/Roboto-BoldItalic.ttf", "ot:common/DejaVuSans.ttf", "ot:common/NotoSansArabic.ttf",
		"ot:common/Raleway-v4020-Regular.otf", "ot:common/FreeSerif.ttf", "ot:common/mplus-1p-regular.ttf",
		"ot:common/Lmmono-italic.otf", "ot:common/NotoSansMongolian-Regular.ttf", "ot:common/OldaniaADFStd-Bold.otf",
		"ot:common/Go-Mono-Bold-Italic.ttf", "ot:common/LiberationMono-Italic.ttf", "ot:common/DejaVuSansMono.ttf",
	}
)

// Synthetic members of the corpus: valid variants of corpus fonts that reach code paths no
// shipped file reaches. "synth:svg-gzip.ttf" is toys/chromacheck-svg.ttf with its SVG documents
// gzip-compressed (allowed by the OpenType specification; the library inflates them on access).
// "synth:gsub-long-context.ttf" is common/Roboto-BoldItalic.ttf with a GSUB made of chained
// context lookups (format 3) whose lookahead sequences are 65 to 200 coverages long.
// "synth:dangling-refs.ttf" is common/Roboto-BoldItalic.ttf in which the first lookup index of
// every GSUB/GPOS feature with two or more lookups dangles (0xFFFF): a malformation the library
// tolerates ("ignore invalid references"), so such a font is parsed, shared and shaped with.
var Synthetic = []string{"synth:svg-gzip.ttf", "synth:gsub-long-context.ttf", "synth:dangling-refs.ttf"}

var synthCache = map[string][]byte{}

func synth(name string) []byte {
	if b, ok := synthCache[name]; ok {
		return append([]byte(nil), b...)
	}
	var out []byte
	switch name {
	case "synth:svg-gzip.ttf":
		out = svgGzip(Bytes("ot:toys/chromacheck-svg.ttf"))
	case "synth:gsub-long-context.ttf":
		base := Bytes("ot:common/Roboto-BoldItalic.ttf")
		gid := font.GID(0)
		if fs, err := font.ParseTTC(bytes.NewReader(base)); err == nil && len(fs) > 0 {
			gid, _ = fs[0].NominalGlyph('a')
		}
		var ok bool
		out, ok = faultdisk.Graft(base, "GSUB", faultdisk.SynthGSUBLongContexts(int(gid), []int{65, 66, 80, 97, 128, 129, 150, 200}))
		if !ok {
			panic("corpus: cannot build synth:gsub-long-context.ttf")
		}
	case "synth:dangling-refs.ttf":
		out = danglingRefs(Bytes("ot:common/Roboto-BoldItalic.ttf"))
	default:
		panic("corpus: unknown synthetic font " + name)
	}
	synthCache[name] = out
	return append([]byte(nil), out...)
}

func danglingRefs(img []byte) []byte {
	out := append([]byte(nil), img...)
	_, tabs := faultdisk.ParseDirectory(out)
	patched := 0
	for _, t := range tabs {
		if (t.Tag != "GSUB" && t.Tag != "GPOS") || t.Offset+t.Length > len(out) || t.Length < 10 {
			continue
		}
		tb := out[t.Offset : t.Offset+t.Length]
		fl := int(binary.BigEndian.Uint16(tb[6:]))
		if fl+2 > len(tb) {
			continue
		}
		n := int(binary.BigEndian.Uint16(tb[fl:]))
		for i := 0; i < n && fl+2+6*i+6 <= len(tb); i++ {
			f := fl + int(binary.BigEndian.Uint16(tb[fl+2+6*i+4:]))
			if f+6 <= len(tb) && binary.BigEndian.Uint16(tb[f+2:]) >= 2 {
				binary.BigEndian.PutUint16(tb[f+4:], 0xFFFF)
				patched++
			}
		}
	}
	if patched == 0 {
		panic("corpus: cannot build synth:dangling-refs.ttf")
	}
	return out
}

func svgGzip(img []byte) []byte {
	_, tabs := faultdisk.ParseDirectory(img)
	for _, t := range tabs {
		if t.Tag != "SVG " || t.Offset+t.Length > len(img) || t.Length < 12 {
			continue
		}
		tb := img[t.Offset : t.Offset+t.Length]
		lo := int(binary.BigEndian.Uint32(tb[2:]))
		if lo+2 > len(tb) {
			break
		}
		n := int(binary.BigEndian.Uint16(tb[lo:]))
		type rec struct {
			first, last uint16
			doc         []byte
		}
		var recs []rec
		for i := 0; i < n; i++ {
			r := tb[lo+2+12*i:]
			off, ln := int(binary.BigEndian.Uint32(r[4:])), int(binary.BigEndian.Uint32(r[8:]))
			if lo+off+ln > len(tb) {
				panic("corpus: chromacheck-svg.ttf has an unexpected SVG table")
			}
			var z bytes.Buffer
			zw := gzip.NewWriter(&z)
			zw.Write(tb[lo+off : lo+off+ln])
			zw.Close()
			recs = append(recs, rec{binary.BigEndian.Uint16(r[0:]), binary.BigEndian.Uint16(r[2:]), z.Bytes()})
		}
		nt := make([]byte, 10+2+12*len(recs))
		binary.BigEndian.PutUint32(nt[2:], 10)
		binary.BigEndian.PutUint16(nt[10:], uint16(len(recs)))
		for i, r := range recs {
			e := nt[12+12*i:]
			binary.BigEndian.PutUint16(e[0:], r.first)
			binary.BigEndian.PutUint16(e[2:], r.last)
			binary.BigEndian.PutUint32(e[4:], uint32(len(nt)-10))
			binary.BigEndian.PutUint32(e[8:], uint32(len(r.doc)))
			nt = append(nt, r.doc...)
		}
		out, ok := faultdisk.Graft(img, "SVG ", nt)
		if !ok {
			break
		}
		return out
	}
	panic("corpus: cannot build synth:svg-gzip.ttf")
}
