package faultdisk

import "encoding/binary"

// TableRef locates one table of a pristine font image (the simulator parses the
// container directory itself, independently of the library, to aim faults).
type TableRef struct {
	Tag      string
	DirEntry int // offset of the directory record
	Offset   int // offset of the table body in the file
	Length   int // stored length (compressed length for WOFF)
}

// Container kinds.
const (
	KindSfnt  = "sfnt"
	KindTTC   = "ttc"
	KindWOFF  = "woff"
	KindDfont = "dfont"
	KindOther = "other"
)

// ParseDirectory returns the container kind and its tables (all fonts of a collection).
func ParseDirectory(b []byte) (kind string, tables []TableRef) {
	if len(b) < 12 {
		return KindOther, nil
	}
	u16 := func(o int) int {
		if o+2 > len(b) {
			return 0
		}
		return int(binary.BigEndian.Uint16(b[o:]))
	}
	u32 := func(o int) int {
		if o+4 > len(b) {
			return 0
		}
		return int(binary.BigEndian.Uint32(b[o:]))
	}
	sfnt := func(base int) {
		n := u16(base + 4)
		for i := 0; i < n && i < 200; i++ {
			rec := base + 12 + 16*i
			if rec+16 > len(b) {
				break
			}
			tables = append(tables, TableRef{Tag: string(b[rec : rec+4]), DirEntry: rec, Offset: u32(rec + 8), Length: u32(rec + 12)})
		}
	}
	switch string(b[:4]) {
	case "ttcf":
		n := u32(8)
		for i := 0; i < n && i < 64; i++ {
			off := u32(12 + 4*i)
			if off+12 <= len(b) {
				sfnt(off)
			}
		}
		return KindTTC, tables
	case "wOFF":
		n := u16(12)
		for i := 0; i < n && i < 200; i++ {
			rec := 44 + 20*i
			if rec+20 > len(b) {
				break
			}
			tables = append(tables, TableRef{Tag: string(b[rec : rec+4]), DirEntry: rec, Offset: u32(rec + 4), Length: u32(rec + 8)})
		}
		return KindWOFF, tables
	case "\x00\x01\x00\x00", "OTTO", "true", "typ1":
		sfnt(0)
		return KindSfnt, tables
	}
	// dfont: resource fork header: data offset, map offset, data length, map length
	if u32(0) == 0x100 && u32(4) > 0x100 && u32(4) < len(b) {
		return KindDfont, nil
	}
	return KindOther, nil
}

// CompositeGlyph locates the component glyph-index fields of one composite glyph of a
// TrueType image (structure-aware, adversarial faults: reference cycles between composites).
type CompositeGlyph struct {
	GID          int
	IndexOffsets []int // file offsets of the uint16 glyphIndex of every component
}

// Composites parses head/maxp/loca/glyf of a plain sfnt image and returns its composite glyphs.
func Composites(b []byte) []CompositeGlyph {
	kind, tabs := ParseDirectory(b)
	if kind != KindSfnt {
		return nil
	}
	find := func(tag string) *TableRef {
		for i := range tabs {
			if tabs[i].Tag == tag {
				return &tabs[i]
			}
		}
		return nil
	}
	head, maxp, loca, glyf := find("head"), find("maxp"), find("loca"), find("glyf")
	if head == nil || maxp == nil || loca == nil || glyf == nil {
		return nil
	}
	u16 := func(o int) int {
		if o < 0 || o+2 > len(b) {
			return 0
		}
		return int(binary.BigEndian.Uint16(b[o:]))
	}
	u32 := func(o int) int {
		if o < 0 || o+4 > len(b) {
			return 0
		}
		return int(binary.BigEndian.Uint32(b[o:]))
	}
	long := u16(head.Offset+50) != 0
	n := u16(maxp.Offset + 4)
	at := func(i int) int {
		if long {
			return u32(loca.Offset + 4*i)
		}
		return 2 * u16(loca.Offset+2*i)
	}
	var out []CompositeGlyph
	for g := 0; g < n && g < 70000; g++ {
		start, end := at(g), at(g+1)
		if end-start < 12 || glyf.Offset+end > len(b) {
			continue
		}
		p := glyf.Offset + start
		if int16(u16(p)) >= 0 {
			continue
		}
		cg := CompositeGlyph{GID: g}
		p += 10
		for k := 0; k < 64 && p+4 <= glyf.Offset+end; k++ {
			flags := u16(p)
			cg.IndexOffsets = append(cg.IndexOffsets, p+2)
			p += 4
			if flags&1 != 0 {
				p += 4
			} else {
				p += 2
			}
			switch {
			case flags&0x8 != 0:
				p += 2
			case flags&0x40 != 0:
				p += 4
			case flags&0x80 != 0:
				p += 8
			}
			if flags&0x20 == 0 {
				break
			}
		}
		out = append(out, cg)
	}
	return out
}
