// Package faultdisk is the simulated disk: a file image served through the
// reader interfaces the library consumes (opentype.Resource = Read + ReadAt +
// Seek) with a seeded plan of transient I/O faults, and a write side that
// records every write call so that crash images (what a power loss can leave
// behind) can be derived from a volatile image.
package faultdisk

import (
	"errors"
	"io"
)

// ErrIO is the injected I/O error (EIO).
var ErrIO = errors.New("faultdisk: input/output error (injected)")

// ErrNoSpace is the injected ENOSPC.
var ErrNoSpace = errors.New("faultdisk: no space left on device (injected)")

// ReadFault is a transient fault at call granularity: the Call-th I/O call
// (Read, ReadAt and Seek are counted together, from 0) misbehaves.
type ReadFault struct {
	Call int    `json:"call"`
	Kind string `json:"kind"` // "eio" | "eof" | "short"
	// Short: number of bytes actually delivered for a legal short read (0 < n < len(p)); clamped.
	N int `json:"n,omitempty"`
}

// File is a read-only simulated file.
type File struct {
	Image  []byte
	Faults []ReadFault
	pos    int64
	Calls  int            // I/O calls so far
	Fired  map[string]int // faults that actually fired, by kind
	Bytes  int64          // bytes delivered
}

func NewFile(image []byte, faults []ReadFault) *File {
	return &File{Image: image, Faults: faults, Fired: map[string]int{}}
}

func (f *File) fault() *ReadFault {
	c := f.Calls
	f.Calls++
	for i := range f.Faults {
		if f.Faults[i].Call == c {
			return &f.Faults[i]
		}
	}
	return nil
}

func (f *File) deliver(p []byte, off int64, sequential bool) (int, error) {
	flt := f.fault()
	if flt != nil {
		switch flt.Kind {
		case "eio":
			f.Fired["eio"]++
			return 0, ErrIO
		case "eof":
			f.Fired["eof"]++
			return 0, io.EOF
		}
	}
	if off >= int64(len(f.Image)) {
		return 0, io.EOF
	}
	n := copy(p, f.Image[off:])
	if flt != nil && flt.Kind == "short" && n > 1 {
		k := flt.N
		if k < 1 {
			k = 1
		}
		if k >= n {
			k = n - 1
		}
		n = k
		f.Fired["short"]++
		f.Bytes += int64(n)
		// a short read with a nil error is legal for Read; ReadAt must explain it
		if sequential {
			return n, nil
		}
		return n, io.ErrUnexpectedEOF
	}
	f.Bytes += int64(n)
	if !sequential && n < len(p) {
		return n, io.EOF
	}
	return n, nil
}

func (f *File) Read(p []byte) (int, error) {
	if len(p) == 0 {
		return 0, nil
	}
	n, err := f.deliver(p, f.pos, true)
	f.pos += int64(n)
	return n, err
}

func (f *File) ReadAt(p []byte, off int64) (int, error) {
	if off < 0 {
		return 0, errors.New("faultdisk: negative offset")
	}
	if len(p) == 0 {
		return 0, nil
	}
	return f.deliver(p, off, false)
}

func (f *File) Seek(offset int64, whence int) (int64, error) {
	if flt := f.fault(); flt != nil && flt.Kind == "eio" {
		f.Fired["eio"]++
		return 0, ErrIO
	}
	var abs int64
	switch whence {
	case io.SeekStart:
		abs = offset
	case io.SeekCurrent:
		abs = f.pos + offset
	case io.SeekEnd:
		abs = int64(len(f.Image)) + offset
	default:
		return 0, errors.New("faultdisk: invalid whence")
	}
	if abs < 0 {
		return 0, errors.New("faultdisk: negative position")
	}
	f.pos = abs
	return abs, nil
}

// ---------------------------------------------------------------- write side

// WriteFault makes the Call-th Write misbehave.
type WriteFault struct {
	Call int    `json:"call"`
	Kind string `json:"kind"` // "eio" | "enospc" | "short"
	N    int    `json:"n,omitempty"`
}

// WFile is a simulated file being written: the volatile image is what the
// writing process believes it wrote; Writes records the extent of every call.
type WFile struct {
	Volatile []byte
	Writes   []int // cumulative length after each successful (or partial) Write call
	Faults   []WriteFault
	Quota    int // ENOSPC once the image would exceed it (0 = unlimited)
	Calls    int
	Fired    map[string]int
}

func NewWFile(faults []WriteFault, quota int) *WFile {
	return &WFile{Faults: faults, Quota: quota, Fired: map[string]int{}}
}

func (w *WFile) Write(p []byte) (int, error) {
	c := w.Calls
	w.Calls++
	for _, f := range w.Faults {
		if f.Call != c {
			continue
		}
		switch f.Kind {
		case "eio":
			w.Fired["eio"]++
			return 0, ErrIO
		case "enospc":
			w.Fired["enospc"]++
			return 0, ErrNoSpace
		case "short":
			n := f.N
			if n >= len(p) {
				n = len(p) - 1
			}
			if n < 0 {
				n = 0
			}
			w.Volatile = append(w.Volatile, p[:n]...)
			w.Writes = append(w.Writes, len(w.Volatile))
			w.Fired["short"]++
			return n, io.ErrShortWrite
		}
	}
	if w.Quota > 0 && len(w.Volatile)+len(p) > w.Quota {
		n := w.Quota - len(w.Volatile)
		if n < 0 {
			n = 0
		}
		w.Volatile = append(w.Volatile, p[:n]...)
		w.Writes = append(w.Writes, len(w.Volatile))
		w.Fired["enospc"]++
		return n, ErrNoSpace
	}
	w.Volatile = append(w.Volatile, p...)
	w.Writes = append(w.Writes, len(w.Volatile))
	return len(p), nil
}

// CrashImage derives what survives a crash.
//
//	model 0: ordered prefix of the volatile image of length n (any n <= len)
//	model 1: empty file (the create/truncate persisted, no data did)
//	model 2: the old content (nothing persisted, not even the truncate)
//	model 3: prefix of length n with the sector containing byte s zeroed
//	model 4: prefix of length n with the sector containing byte s still holding the old bytes (torn write)
func CrashImage(volatile, old []byte, model, n, s, sector int) []byte {
	if n > len(volatile) {
		n = len(volatile)
	}
	if n < 0 {
		n = 0
	}
	switch model {
	case 1:
		return []byte{}
	case 2:
		return append([]byte(nil), old...)
	}
	img := append([]byte(nil), volatile[:n]...)
	if model == 0 || n == 0 {
		return img
	}
	if sector <= 0 {
		sector = 512
	}
	if s >= n {
		s = n - 1
	}
	if s < 0 {
		s = 0
	}
	lo := s / sector * sector
	hi := lo + sector
	if hi > n {
		hi = n
	}
	for i := lo; i < hi; i++ {
		if model == 4 && i < len(old) {
			img[i] = old[i]
		} else {
			img[i] = 0
		}
	}
	return img
}
