package faultdisk

import "encoding/binary"

// Adversarial stored images: instead of damaging bytes at random, the simulated disk holds a
// font one of whose tables was written by an attacker who knows the format. Each synthesizer
// below builds a small, well-formed table that aims at one of the work limits the library
// relies on for totality (buffer length and operation budgets of the shaper, lookup nesting,
// enumeration of character maps). Graft puts such a table in place of an existing one.

// Graft returns a copy of a plain sfnt image whose table `tag` is replaced by data (appended
// at the end, 4-byte aligned, directory record updated). ok is false if the image is not a
// plain sfnt or has no such table.
func Graft(img []byte, tag string, data []byte) (out []byte, ok bool) {
	kind, tabs := ParseDirectory(img)
	if kind != KindSfnt {
		return img, false
	}
	for _, t := range tabs {
		if t.Tag != tag {
			continue
		}
		out = append([]byte(nil), img...)
		for len(out)%4 != 0 {
			out = append(out, 0)
		}
		off := len(out)
		out = append(out, data...)
		for len(out)%4 != 0 {
			out = append(out, 0)
		}
		binary.BigEndian.PutUint32(out[t.DirEntry+8:], uint32(off))
		binary.BigEndian.PutUint32(out[t.DirEntry+12:], uint32(len(data)))
		return out, true
	}
	// the font has no such table: insert a directory record (kept sorted by tag) and move
	// every table body 16 bytes further
	n := len(tabs)
	if 12+16*n > len(img) {
		return img, false
	}
	out = make([]byte, 0, len(img)+16+len(data)+8)
	out = append(out, img[:12]...)
	binary.BigEndian.PutUint16(out[4:], uint16(n+1))
	inserted := false
	newRec := func() {
		rec := make([]byte, 16)
		copy(rec, tag)
		out = append(out, rec...) // offset and length patched below
	}
	at := -1
	for i, t := range tabs {
		if !inserted && t.Tag > tag {
			at = len(out)
			newRec()
			inserted = true
		}
		rec := append([]byte(nil), img[12+16*i:12+16*i+16]...)
		binary.BigEndian.PutUint32(rec[8:], uint32(t.Offset+16))
		out = append(out, rec...)
	}
	if !inserted {
		at = len(out)
		newRec()
	}
	out = append(out, img[12+16*n:]...)
	for len(out)%4 != 0 {
		out = append(out, 0)
	}
	binary.BigEndian.PutUint32(out[at+8:], uint32(len(out)))
	binary.BigEndian.PutUint32(out[at+12:], uint32(len(data)))
	out = append(out, data...)
	for len(out)%4 != 0 {
		out = append(out, 0)
	}
	return out, true
}

// SynthKerx0Tuple builds a 'kerx' table with one format 0 subtable that carries tuples (variable
// fonts): the pair values are then offsets into the subtable, here beyond 0x7FFF.
func SynthKerx0Tuple(left, right int, value uint16, size int) []byte {
	var w wbuf
	w.u16(3, 0)
	w.u32(1)
	if size < 48 {
		size = 48
	}
	w.u32(uint32(size)) // subtable length
	w.u32(0)            // coverage: format 0
	w.u32(1)            // tupleCount
	w.u32(1)            // nPairs
	w.u32(6)
	w.u32(0)
	w.u32(0)
	w.u16(left, right, int(value))
	for w.len() < 8+size {
		w.b = append(w.b, 0x01)
	}
	return w.b
}

// SynthKern3 builds a 'kern' table (Apple or OpenType header) with one format 3 subtable of the
// given dimensions (glyphs, kerning values, left classes, right classes). All array elements are
// in range except element `at` of array `which` (0 left classes, 1 right classes, 2 kernIndex),
// which is set to its bound (how 0), its bound minus one (how 1: still valid) or 255 (how 2).
func SynthKern3(dims [4]int, which, at, how int, apple bool) []byte {
	g, k, lc, rc := dims[0], dims[1], dims[2], dims[3]
	var body wbuf
	body.u16(g)
	body.b = append(body.b, byte(k), byte(lc), byte(rc), 0)
	for i := 0; i < k; i++ {
		body.u16(10 * (i + 1))
	}
	arrays := [3][]byte{make([]byte, g), make([]byte, g), make([]byte, lc*rc)}
	bounds := [3]int{lc, rc, k}
	for a := range arrays {
		for i := range arrays[a] {
			arrays[a][i] = byte((i*7 + a) % bounds[a])
		}
	}
	el := &arrays[which%3][at%len(arrays[which%3])]
	switch how {
	case 0:
		*el = byte(bounds[which%3])
	case 1:
		*el = byte(bounds[which%3] - 1)
	default:
		*el = 255
	}
	if which%3 == 2 {
		// make every class pair reachable: glyph i has left class i%lc, right class (i/lc)%rc
		for i := 0; i < g; i++ {
			arrays[0][i], arrays[1][i] = byte(i%lc), byte((i/lc)%rc)
		}
	}
	for _, a := range arrays {
		body.raw(a)
	}
	var w wbuf
	if apple {
		w.u32(0x00010000)
		w.u32(1)
		w.u32(uint32(8 + body.len()))
		w.b = append(w.b, 0, 3)
		w.u16(0)
	} else {
		w.u16(0, 1)
		w.u16(0, 6+body.len())
		w.b = append(w.b, 3, 1) // format 3, horizontal
	}
	w.raw(body.b)
	return w.b
}

type wbuf struct{ b []byte }

func (w *wbuf) u16(v ...int) {
	for _, x := range v {
		w.b = append(w.b, byte(x>>8), byte(x))
	}
}
func (w *wbuf) u32(v uint32)      { w.b = append(w.b, byte(v>>24), byte(v>>16), byte(v>>8), byte(v)) }
func (w *wbuf) tag(s string)      { w.b = append(w.b, s[:4]...) }
func (w *wbuf) len() int          { return len(w.b) }
func (w *wbuf) raw(p []byte)      { w.b = append(w.b, p...) }
func (w *wbuf) patch16(at, v int) { w.b[at], w.b[at+1] = byte(v>>8), byte(v) }

// layoutTable assembles a GSUB/GPOS table (version 1.0) with scripts DFLT and latn sharing one
// default LangSys, one feature `feat` listing every lookup, and the given lookup tables.
func layoutTable(feat string, lookups [][]byte) []byte {
	var w wbuf
	w.u16(1, 0, 10, 0, 0) // version, scriptList at 10, featureList, lookupList patched below
	// ScriptList
	w.u16(2)
	w.tag("DFLT")
	w.u16(14)
	w.tag("latn")
	w.u16(14)
	// Script (at +14 of the ScriptList): defaultLangSys at 4, no LangSysRecord
	w.u16(4, 0)
	// LangSys
	w.u16(0, 0xFFFF, 1, 0)
	// FeatureList
	w.patch16(6, w.len())
	w.u16(1)
	w.tag(feat)
	w.u16(8)
	w.u16(0, len(lookups))
	for i := range lookups {
		w.u16(i)
	}
	// LookupList
	w.patch16(8, w.len())
	base := w.len()
	w.u16(len(lookups))
	offs := w.len()
	for range lookups {
		w.u16(0)
	}
	for i, l := range lookups {
		w.patch16(offs+2*i, w.len()-base)
		w.raw(l)
	}
	return w.b
}

// SynthGSUBExpansion: k MultipleSubst lookups in one feature stage, each replacing glyph gid
// by n copies of itself: one input glyph asks for n^k output glyphs.
func SynthGSUBExpansion(gid, k, n int) []byte {
	var l wbuf
	l.u16(2, 0, 1, 8) // Lookup: type 2, flag, 1 subtable at 8
	l.u16(1, 0, 1, 8) // MultipleSubstFormat1: coverage patched, 1 sequence at 8
	l.u16(n)          // Sequence
	for i := 0; i < n; i++ {
		l.u16(gid)
	}
	l.patch16(8+2, l.len()-8) // coverage offset from the subtable start
	l.u16(1, 1, gid)
	lookups := make([][]byte, k)
	for i := range lookups {
		lookups[i] = l.b
	}
	return layoutTable("ccmp", lookups)
}

// SynthGSUBRecursion: one contextual lookup (format 3) on glyph gid whose `fan` sequence-lookup
// records all invoke the lookup itself: fan^depth nested applications unless a limit stops them.
func SynthGSUBRecursion(gid, fan int) []byte {
	var l wbuf
	l.u16(5, 0, 1, 8) // Lookup: type 5 (context), 1 subtable at 8
	st := l.len()
	l.u16(3, 1, fan, 0) // format 3, glyphCount 1, seqLookupCount, coverage offset patched
	for i := 0; i < fan; i++ {
		l.u16(0, 0) // sequenceIndex 0, lookupListIndex 0
	}
	l.patch16(st+6, l.len()-st)
	l.u16(1, 1, gid)
	return layoutTable("ccmp", [][]byte{l.b})
}

// SynthCmap12 builds a cmap with one (3,10) format 12 subtable holding the given groups
// (start, end, startGlyph): huge or overlapping groups make enumeration costly.
func SynthCmap12(groups [][3]uint32) []byte {
	var w wbuf
	w.u16(0, 1, 3, 10)
	w.u32(12)
	w.u16(12, 0)
	w.u32(uint32(16 + 12*len(groups)))
	w.u32(0)
	w.u32(uint32(len(groups)))
	for _, g := range groups {
		w.u32(g[0])
		w.u32(g[1])
		w.u32(g[2])
	}
	return w.b
}

// Patch is a run of bytes to be written at an absolute file offset.
type Patch struct {
	Off  int
	Data []byte
}

type cffIndex struct {
	count int
	start []int // absolute offsets of the objects, count+1 entries
	end   int   // absolute offset just after the INDEX
}

func parseCFFIndex(b []byte, pos int) (ix cffIndex, ok bool) {
	if pos < 0 || pos+2 > len(b) {
		return ix, false
	}
	ix.count = int(binary.BigEndian.Uint16(b[pos:]))
	if ix.count == 0 {
		ix.end = pos + 2
		return ix, true
	}
	if pos+3 > len(b) {
		return ix, false
	}
	offSize := int(b[pos+2])
	if offSize < 1 || offSize > 4 {
		return ix, false
	}
	base := pos + 3 + (ix.count+1)*offSize - 1
	for i := 0; i <= ix.count; i++ {
		o := pos + 3 + i*offSize
		if o+offSize > len(b) {
			return ix, false
		}
		v := 0
		for _, c := range b[o : o+offSize] {
			v = v<<8 | int(c)
		}
		if base+v > len(b) || (i > 0 && base+v < ix.start[i-1]) {
			return ix, false
		}
		ix.start = append(ix.start, base+v)
	}
	ix.end = ix.start[ix.count]
	return ix, true
}

// cffDictInts returns the integer operands of the first occurrence of a one-byte operator of a DICT.
func cffDictInts(d []byte, op byte) (vals []int, ok bool) {
	var st []int
	for i := 0; i < len(d); {
		c := d[i]
		switch {
		case c >= 32 && c <= 246:
			st, i = append(st, int(c)-139), i+1
		case c >= 247 && c <= 250 && i+1 < len(d):
			st, i = append(st, (int(c)-247)*256+int(d[i+1])+108), i+2
		case c >= 251 && c <= 254 && i+1 < len(d):
			st, i = append(st, -(int(c)-251)*256-int(d[i+1])-108), i+2
		case c == 28 && i+2 < len(d):
			st, i = append(st, int(int16(binary.BigEndian.Uint16(d[i+1:])))), i+3
		case c == 29 && i+4 < len(d):
			st, i = append(st, int(int32(binary.BigEndian.Uint32(d[i+1:])))), i+5
		case c == 30: // real number: skip to the terminating nibble
			i++
			for i < len(d) {
				x := d[i]
				i++
				if x&0x0F == 0x0F || x>>4 == 0x0F {
					break
				}
			}
			st = append(st, 0)
		case c == 12:
			st, i = st[:0], i+2
		case c <= 21:
			if c == op {
				return st, true
			}
			st, i = st[:0], i+1
		default:
			return nil, false
		}
	}
	return nil, false
}

func cffEncodeInt(v int) []byte {
	switch {
	case v >= -107 && v <= 107:
		return []byte{byte(v + 139)}
	case v >= 108 && v <= 1131:
		return []byte{byte((v-108)>>8 + 247), byte((v - 108) & 0xFF)}
	case v >= -1131 && v <= -108:
		return []byte{byte((-v-108)>>8 + 251), byte((-v - 108) & 0xFF)}
	}
	return []byte{28, byte(v >> 8), byte(v)}
}

// CFFSubrChain rewrites, in place, subroutines of a CFF font (global ones, else the local ones
// of a non-CID font) into an acyclic chain of `depth` subroutines in which each one does
// nothing but call the next as often as its length allows, and the charstring of one glyph so
// that it calls the first: fan-out^depth interpreter steps from a few hundred bytes, without
// ever exceeding the subroutine nesting limit. Returns the patches and the glyph to query.
func CFFSubrChain(img []byte, depth int, pick func(n int) int) (patches []Patch, gid int, ok bool) {
	kind, tabs := ParseDirectory(img)
	if kind != KindSfnt {
		return nil, 0, false
	}
	var cff *TableRef
	for i := range tabs {
		if tabs[i].Tag == "CFF " {
			cff = &tabs[i]
		}
	}
	if cff == nil || cff.Offset+4 > len(img) || cff.Offset+cff.Length > len(img) {
		return nil, 0, false
	}
	b := img[:cff.Offset+cff.Length]
	pos := cff.Offset + int(b[cff.Offset+2])
	name, ok1 := parseCFFIndex(b, pos)
	if !ok1 {
		return nil, 0, false
	}
	top, ok2 := parseCFFIndex(b, name.end)
	if !ok2 || top.count < 1 {
		return nil, 0, false
	}
	str, ok3 := parseCFFIndex(b, top.end)
	if !ok3 {
		return nil, 0, false
	}
	gsubrs, ok4 := parseCFFIndex(b, str.end)
	if !ok4 {
		return nil, 0, false
	}
	topDict := b[top.start[0]:top.start[1]]
	csOff, ok5 := cffDictInts(topDict, 17)
	if !ok5 || len(csOff) < 1 {
		return nil, 0, false
	}
	cs, ok6 := parseCFFIndex(b, cff.Offset+csOff[len(csOff)-1])
	if !ok6 || cs.count < 2 {
		return nil, 0, false
	}
	subrs, callOp := gsubrs, byte(29)
	usable := func(ix cffIndex) []int {
		var u []int
		for i := 0; i < ix.count; i++ {
			if ix.start[i+1]-ix.start[i] >= 7 {
				u = append(u, i)
			}
		}
		return u
	}
	cand := usable(subrs)
	if len(cand) < depth {
		// local subroutines of the (single) Private DICT
		priv, okp := cffDictInts(topDict, 18)
		if !okp || len(priv) < 2 {
			return nil, 0, false
		}
		pStart := cff.Offset + priv[len(priv)-1]
		pEnd := pStart + priv[len(priv)-2]
		if pStart < 0 || pEnd > len(b) || pStart > pEnd {
			return nil, 0, false
		}
		so, oks := cffDictInts(b[pStart:pEnd], 19)
		if !oks || len(so) < 1 {
			return nil, 0, false
		}
		ls, okl := parseCFFIndex(b, pStart+so[len(so)-1])
		if !okl {
			return nil, 0, false
		}
		subrs, callOp = ls, 10
		cand = usable(subrs)
		if len(cand) < depth {
			return nil, 0, false
		}
	}
	bias := 107
	if subrs.count >= 33900 {
		bias = 32768
	} else if subrs.count >= 1240 {
		bias = 1131
	}
	// choose `depth` distinct subroutines
	chain := make([]int, 0, depth)
	for len(chain) < depth {
		i := pick(len(cand))
		chain = append(chain, cand[i])
		cand = append(cand[:i], cand[i+1:]...)
	}
	for k, s := range chain {
		n := subrs.start[s+1] - subrs.start[s]
		body := make([]byte, 0, n)
		if k+1 < len(chain) {
			call := append(cffEncodeInt(chain[k+1]-bias), callOp)
			for len(body)+len(call)+1 <= n {
				body = append(body, call...)
			}
		}
		for len(body) < n {
			body = append(body, 11) // return
		}
		patches = append(patches, Patch{Off: subrs.start[s], Data: body})
	}
	// a glyph whose charstring is long enough to hold the first call
	for try := 0; try < 64; try++ {
		g := 1 + pick(cs.count-1)
		if n := cs.start[g+1] - cs.start[g]; n >= 5 {
			body := append(cffEncodeInt(chain[0]-bias), callOp, 14)
			for len(body) < n {
				body = append(body, 14) // endchar
			}
			patches = append(patches, Patch{Off: cs.start[g], Data: body})
			return patches, g, true
		}
	}
	return nil, 0, false
}

// SynthCmap14Aliased builds a cmap whose first subtable is a copy of `base` (an existing
// subtable of the font, so that the font stays usable) and whose second one is a format 14
// subtable with n variation selector records that all point at ONE default UVS table of m
// ranges: the bytes are shared, whatever is parsed from them is not.
func SynthCmap14Aliased(base []byte, n, m int) []byte {
	var w wbuf
	w.u16(0, 2)
	w.u16(3, 1)
	w.u32(20)
	w.u16(0, 5)
	w.u32(uint32(20 + len(base)))
	w.raw(base)
	sub := w.len()
	w.u16(14)
	w.u32(uint32(10 + 11*n + 4 + 4*m))
	w.u32(uint32(n))
	uvs := 10 + 11*n
	for i := 0; i < n; i++ {
		vs := 0xFE00 + i%16
		w.b = append(w.b, byte(vs>>16), byte(vs>>8), byte(vs))
		w.u32(uint32(uvs))
		w.u32(0)
	}
	_ = sub
	w.u32(uint32(m))
	for i := 0; i < m; i++ {
		c := 0x4E00 + 2*i
		w.b = append(w.b, byte(c>>16), byte(c>>8), byte(c), 0)
	}
	return w.b
}

// FirstCmapSubtable4 returns the bytes of the first format 4 subtable of a plain sfnt image.
func FirstCmapSubtable4(img []byte) []byte {
	_, tabs := ParseDirectory(img)
	for _, t := range tabs {
		if t.Tag != "cmap" || t.Offset+t.Length > len(img) || t.Length < 4 {
			continue
		}
		tb := img[t.Offset : t.Offset+t.Length]
		n := int(binary.BigEndian.Uint16(tb[2:]))
		for i := 0; i < n && 4+8*i+8 <= len(tb); i++ {
			off := int(binary.BigEndian.Uint32(tb[4+8*i+4:]))
			if off+4 <= len(tb) && binary.BigEndian.Uint16(tb[off:]) == 4 {
				l := int(binary.BigEndian.Uint16(tb[off+2:]))
				if off+l <= len(tb) && l >= 16 {
					return tb[off : off+l]
				}
			}
		}
	}
	return nil
}

// SynthGPOSDevice builds a GPOS table with one SinglePos lookup (feature kern) on glyph gid
// whose value record refers to a hinting Device table covering the sizes [start, end].
func SynthGPOSDevice(gid, start, end, format int) []byte {
	var l wbuf
	l.u16(1, 0, 1, 8) // Lookup: type 1 (single adjustment), 1 subtable at 8
	st := l.len()
	l.u16(1, 0, 0x0044) // SinglePosFormat1: coverage offset patched, valueFormat XAdvance|XAdvDevice
	l.u16(10, 0)        // xAdvance, device offset patched
	l.patch16(st+2, l.len()-st)
	l.u16(1, 1, gid) // coverage
	l.patch16(st+8, l.len()-st)
	l.u16(start, end, format)
	l.u16(0x5555, 0x5555, 0x5555, 0x5555)
	return layoutTable("kern", [][]byte{l.b})
}

// SbixGlyph locates one glyph record of an 'sbix' strike in a plain sfnt image.
type SbixGlyph struct {
	GID    int
	Off    int // file offset of the record (originOffsetX, originOffsetY, graphicType, data)
	Length int // record length
}

// SbixGlyphs lists the non-empty glyph records of the first strike of the sbix table and
// returns the number of glyphs of the font.
func SbixGlyphs(img []byte) (glyphs []SbixGlyph, numGlyphs int) {
	kind, tabs := ParseDirectory(img)
	if kind != KindSfnt {
		return nil, 0
	}
	var sbix, maxp *TableRef
	for i := range tabs {
		switch tabs[i].Tag {
		case "sbix":
			sbix = &tabs[i]
		case "maxp":
			maxp = &tabs[i]
		}
	}
	if sbix == nil || maxp == nil || maxp.Offset+6 > len(img) || sbix.Offset+12 > len(img) {
		return nil, 0
	}
	numGlyphs = int(binary.BigEndian.Uint16(img[maxp.Offset+4:]))
	if binary.BigEndian.Uint32(img[sbix.Offset+4:]) == 0 {
		return nil, numGlyphs
	}
	strike := sbix.Offset + int(binary.BigEndian.Uint32(img[sbix.Offset+8:]))
	if strike+4+4*(numGlyphs+1) > len(img) {
		return nil, numGlyphs
	}
	for g := 0; g < numGlyphs; g++ {
		a := int(binary.BigEndian.Uint32(img[strike+4+4*g:]))
		b := int(binary.BigEndian.Uint32(img[strike+4+4*g+4:]))
		if b-a >= 10 && strike+b <= len(img) {
			glyphs = append(glyphs, SbixGlyph{GID: g, Off: strike + a, Length: b - a})
		}
	}
	return glyphs, numGlyphs
}

// SynthGSUBLongContexts builds a GSUB table whose lookups are chained contexts (format 3) on
// glyph gid with one input glyph and the given numbers of lookahead coverages (all sharing one
// coverage table): legal, unusual, and longer than any context of the corpus fonts.
func SynthGSUBLongContexts(gid int, lookaheads []int) []byte {
	var lookups [][]byte
	for _, n := range lookaheads {
		var l wbuf
		l.u16(6, 0, 1, 8) // Lookup: type 6 (chained context), 1 subtable at 8
		st := l.len()
		l.u16(3, 0)   // format 3, no backtrack
		l.u16(1, 0)   // one input coverage (offset patched)
		l.u16(n)      // lookahead count
		la := l.len() // lookahead coverage offsets
		for i := 0; i < n; i++ {
			l.u16(0)
		}
		l.u16(0) // no sequence lookup record
		cov := l.len() - st
		l.u16(1, 1, gid)
		l.patch16(st+6, cov)
		for i := 0; i < n; i++ {
			l.patch16(la+2*i, cov)
		}
		lookups = append(lookups, l.b)
	}
	return layoutTable("ccmp", lookups)
}

// GvarPointBlock locates one packed point-number block of a 'gvar' table (the shared point
// numbers of a glyph, or the private ones of its first tuple).
type GvarPointBlock struct {
	GID int
	Off int // file offset of the block
	Len int // its length in bytes
}

// packedPointsLen returns the length of a packed point-number block starting at b[0].
func packedPointsLen(b []byte) (int, bool) {
	if len(b) == 0 {
		return 0, false
	}
	if b[0] == 0 {
		return 1, true
	}
	pos, count := 1, int(b[0])
	if b[0]&0x80 != 0 {
		if len(b) < 2 {
			return 0, false
		}
		count, pos = int(b[0]&0x7F)<<8|int(b[1]), 2
	}
	for got := 0; got < count; {
		if pos >= len(b) {
			return 0, false
		}
		c := b[pos]
		pos++
		n := int(c&0x7F) + 1
		if c&0x80 != 0 {
			pos += 2 * n
		} else {
			pos += n
		}
		got += n
	}
	if pos > len(b) {
		return 0, false
	}
	return pos, true
}

// GvarPointBlocks lists the point-number blocks of at least minLen bytes.
func GvarPointBlocks(img []byte, minLen int) (out []GvarPointBlock) {
	kind, tabs := ParseDirectory(img)
	if kind != KindSfnt {
		return nil
	}
	for _, t := range tabs {
		if t.Tag != "gvar" || t.Length < 20 || t.Offset+t.Length > len(img) {
			continue
		}
		g := img[t.Offset : t.Offset+t.Length]
		axes := int(binary.BigEndian.Uint16(g[4:]))
		n := int(binary.BigEndian.Uint16(g[12:]))
		long := binary.BigEndian.Uint16(g[14:])&1 != 0
		arr := int(binary.BigEndian.Uint32(g[16:]))
		at := func(i int) int {
			if long {
				if 20+4*i+4 > len(g) {
					return -1
				}
				return int(binary.BigEndian.Uint32(g[20+4*i:]))
			}
			if 20+2*i+2 > len(g) {
				return -1
			}
			return 2 * int(binary.BigEndian.Uint16(g[20+2*i:]))
		}
		for gid := 0; gid < n; gid++ {
			a, b := at(gid), at(gid+1)
			if a < 0 || b <= a+4 || arr+b > len(g) {
				continue
			}
			d := g[arr+a : arr+b]
			tc := int(binary.BigEndian.Uint16(d))
			dataOff := int(binary.BigEndian.Uint16(d[2:]))
			if tc&0x0FFF == 0 || dataOff >= len(d) {
				continue
			}
			ser := d[dataOff:]
			if tc&0x8000 != 0 { // shared point numbers
				if l, ok := packedPointsLen(ser); ok && l >= minLen {
					out = append(out, GvarPointBlock{gid, t.Offset + arr + a + dataOff, l})
				}
				continue
			}
			// private points of the first tuple
			if 8 > len(d) {
				continue
			}
			if ti := binary.BigEndian.Uint16(d[6:]); ti&0x2000 != 0 {
				_ = axes
				if l, ok := packedPointsLen(ser); ok && l >= minLen {
					out = append(out, GvarPointBlock{gid, t.Offset + arr + a + dataOff, l})
				}
			}
		}
	}
	return out
}

// AdversarialPoints encodes, in exactly n bytes (n >= 4), a packed point-number block whose
// running sum leaves the glyph and, for even n, wraps around 16 bits back to a small value.
func AdversarialPoints(n int, variant int) []byte {
	out := make([]byte, 0, n)
	if n%2 == 0 {
		k := (n - 2) / 2
		out = append(out, byte(k), 0x80|byte(k-1))
		vals := [][]uint16{{1, 0xFFF0, 0x10}, {0xFFFF, 2, 0}, {5, 0x7FFF, 0x8001}, {0, 0xFFFF, 0xFFFF}}[variant%4]
		for i := 0; i < k; i++ {
			v := uint16(0)
			if i < len(vals) {
				v = vals[i]
			}
			out = append(out, byte(v>>8), byte(v))
		}
		return out
	}
	k := n - 2
	out = append(out, byte(k), byte(k-1))
	for i := 0; i < k; i++ {
		out = append(out, []byte{0xFF, 0x01, 0x80, 0x00}[(i+variant)%4])
	}
	return out
}

// CFFDictOperators returns the file offsets of the one-byte operators of the Top DICT and of
// the Private DICT of a CFF font: each selects what its operands mean (charset, encoding,
// charstrings, private dict, subroutines, default widths …).
func CFFDictOperators(img []byte) (offs []int) {
	kind, tabs := ParseDirectory(img)
	if kind != KindSfnt {
		return nil
	}
	for _, t := range tabs {
		if t.Tag != "CFF " || t.Offset+4 > len(img) || t.Offset+t.Length > len(img) {
			continue
		}
		b := img[:t.Offset+t.Length]
		name, ok := parseCFFIndex(b, t.Offset+int(b[t.Offset+2]))
		if !ok {
			return nil
		}
		top, ok := parseCFFIndex(b, name.end)
		if !ok || top.count < 1 {
			return nil
		}
		walk := func(lo, hi int) {
			for i := lo; i < hi; {
				c := b[i]
				switch {
				case c >= 32 && c <= 246:
					i++
				case c >= 247 && c <= 254:
					i += 2
				case c == 28:
					i += 3
				case c == 29:
					i += 5
				case c == 30:
					i++
					for i < hi {
						x := b[i]
						i++
						if x&0x0F == 0x0F || x>>4 == 0x0F {
							break
						}
					}
				case c == 12:
					i += 2
				case c <= 21:
					offs = append(offs, i)
					i++
				default:
					return
				}
			}
		}
		walk(top.start[0], top.start[1])
		if priv, ok := cffDictInts(b[top.start[0]:top.start[1]], 18); ok && len(priv) >= 2 {
			lo := t.Offset + priv[len(priv)-1]
			hi := lo + priv[len(priv)-2]
			if lo >= 0 && hi <= len(b) && lo <= hi {
				walk(lo, hi)
			}
		}
	}
	return offs
}

// BitmapIndexSubtables returns the file offsets of the index subtable headers (indexFormat,
// imageFormat, imageDataOffset, then the format's own data) of the EBLC/CBLC/bloc table.
func BitmapIndexSubtables(img []byte) (offs []int) {
	kind, tabs := ParseDirectory(img)
	if kind != KindSfnt {
		return nil
	}
	for _, t := range tabs {
		if (t.Tag != "EBLC" && t.Tag != "CBLC" && t.Tag != "bloc") || t.Length < 8 || t.Offset+t.Length > len(img) {
			continue
		}
		tb := img[t.Offset : t.Offset+t.Length]
		ns := int(binary.BigEndian.Uint32(tb[4:]))
		for s := 0; s < ns && 8+48*s+48 <= len(tb); s++ {
			rec := tb[8+48*s:]
			arr, nsub := int(binary.BigEndian.Uint32(rec[0:])), int(binary.BigEndian.Uint32(rec[8:]))
			for k := 0; k < nsub && k < 4096 && arr+8*k+8 <= len(tb); k++ {
				add := int(binary.BigEndian.Uint32(tb[arr+8*k+4:]))
				if h := arr + add; h+16 <= len(tb) {
					offs = append(offs, t.Offset+h)
				}
			}
		}
	}
	return offs
}

// cffDictEscInts returns the integer operands of the first occurrence of the two-byte operator
// (12, op) of a DICT.
func cffDictEscInts(d []byte, op byte) (vals []int, ok bool) {
	var st []int
	for i := 0; i < len(d); {
		c := d[i]
		switch {
		case c >= 32 && c <= 246:
			st, i = append(st, int(c)-139), i+1
		case c >= 247 && c <= 250 && i+1 < len(d):
			st, i = append(st, (int(c)-247)*256+int(d[i+1])+108), i+2
		case c >= 251 && c <= 254 && i+1 < len(d):
			st, i = append(st, -(int(c)-251)*256-int(d[i+1])-108), i+2
		case c == 28 && i+2 < len(d):
			st, i = append(st, int(int16(binary.BigEndian.Uint16(d[i+1:])))), i+3
		case c == 29 && i+4 < len(d):
			st, i = append(st, int(int32(binary.BigEndian.Uint32(d[i+1:])))), i+5
		case c == 30:
			i++
			for i < len(d) {
				x := d[i]
				i++
				if x&0x0F == 0x0F || x>>4 == 0x0F {
					break
				}
			}
			st = append(st, 0)
		case c == 12 && i+1 < len(d):
			if d[i+1] == op {
				return st, true
			}
			st, i = st[:0], i+2
		case c <= 21:
			st, i = st[:0], i+1
		default:
			return nil, false
		}
	}
	return nil, false
}

// FDSelect3 describes the format 3 FDSelect of a CID-keyed CFF font found in an sfnt file:
// absolute file offsets of the range records (first glyph u16, font dict u8) and of the sentinel.
type FDSelect3 struct {
	Ranges   []int // offset of each range record
	Sentinel int
	NumFD    int // number of font dicts (FDArray count)
	Glyphs   int // number of charstrings
}

func CFFFDSelect3(img []byte) (fs FDSelect3, ok bool) {
	kind, tabs := ParseDirectory(img)
	if kind != KindSfnt {
		return fs, false
	}
	for _, t := range tabs {
		if t.Tag != "CFF " || t.Offset+4 > len(img) || t.Offset+t.Length > len(img) {
			continue
		}
		b := img[:t.Offset+t.Length]
		name, ok := parseCFFIndex(b, t.Offset+int(b[t.Offset+2]))
		if !ok {
			return fs, false
		}
		top, ok := parseCFFIndex(b, name.end)
		if !ok || top.count < 1 {
			return fs, false
		}
		d := b[top.start[0]:top.start[1]]
		sel, ok1 := cffDictEscInts(d, 37)
		arr, ok2 := cffDictEscInts(d, 36)
		cs, ok3 := cffDictInts(d, 17)
		if !ok1 || !ok2 || !ok3 || len(sel) == 0 || len(arr) == 0 || len(cs) == 0 {
			return fs, false
		}
		fda, ok := parseCFFIndex(b, t.Offset+arr[len(arr)-1])
		if !ok {
			return fs, false
		}
		chs, ok := parseCFFIndex(b, t.Offset+cs[len(cs)-1])
		if !ok {
			return fs, false
		}
		p := t.Offset + sel[len(sel)-1]
		if p < 0 || p+3 > len(b) || b[p] != 3 {
			return fs, false
		}
		n := int(binary.BigEndian.Uint16(b[p+1:]))
		if p+3+3*n+2 > len(b) {
			return fs, false
		}
		for i := 0; i < n; i++ {
			fs.Ranges = append(fs.Ranges, p+3+3*i)
		}
		fs.Sentinel, fs.NumFD, fs.Glyphs = p+3+3*n, fda.count, chs.count
		return fs, n > 0
	}
	return fs, false
}
