package faultdisk

import "encoding/binary"

// Adversarial stored images: instead of damaging bytes at random, the simulated disk holds a
// font one of whose tables was written by an attacker who knows the format. Each synthesizer
// below builds a small, well-formed table that aims at one of the work limits the library
// relies on for totality (buffer length and operation budgets of the shaper, lookup nesting,
// enumeration of character maps). Graft puts such a table in place of an existing one.

// Graft returns a copy of a plain sfnt image whose table `tag` is replaced by data (appended
// at the end, 4-byte aligned, directory record updated). ok is false if the image is not a
// plain sfnt or has no such table.
func Graft(img []byte, tag string, data []byte) (out []byte, ok bool) {
	kind, tabs := ParseDirectory(img)
	if kind != KindSfnt {
		return img, false
	}
	for _, t := range tabs {
		if t.Tag != tag {
			continue
		}
		out = append([]byte(nil), img...)
		for len(out)%4 != 0 {
			out = append(out, 0)
		}
		off := len(out)
		out = append(out, data...)
		for len(out)%4 != 0 {
			out = append(out, 0)
		}
		binary.BigEndian.PutUint32(out[t.DirEntry+8:], uint32(off))
		binary.BigEndian.PutUint32(out[t.DirEntry+12:], uint32(len(data)))
		return out, true
	}
	return img, false
}

type wbuf struct{ b []byte }

func (w *wbuf) u16(v ...int) {
	for _, x := range v {
		w.b = append(w.b, byte(x>>8), byte(x))
	}
}
func (w *wbuf) u32(v uint32)      { w.b = append(w.b, byte(v>>24), byte(v>>16), byte(v>>8), byte(v)) }
func (w *wbuf) tag(s string)      { w.b = append(w.b, s[:4]...) }
func (w *wbuf) len() int          { return len(w.b) }
func (w *wbuf) raw(p []byte)      { w.b = append(w.b, p...) }
func (w *wbuf) patch16(at, v int) { w.b[at], w.b[at+1] = byte(v>>8), byte(v) }

// layoutTable assembles a GSUB/GPOS table (version 1.0) with scripts DFLT and latn sharing one
// default LangSys, one feature `feat` listing every lookup, and the given lookup tables.
func layoutTable(feat string, lookups [][]byte) []byte {
	var w wbuf
	w.u16(1, 0, 10, 0, 0) // version, scriptList at 10, featureList, lookupList patched below
	// ScriptList
	w.u16(2)
	w.tag("DFLT")
	w.u16(14)
	w.tag("latn")
	w.u16(14)
	// Script (at +14 of the ScriptList): defaultLangSys at 4, no LangSysRecord
	w.u16(4, 0)
	// LangSys
	w.u16(0, 0xFFFF, 1, 0)
	// FeatureList
	w.patch16(6, w.len())
	w.u16(1)
	w.tag(feat)
	w.u16(8)
	w.u16(0, len(lookups))
	for i := range lookups {
		w.u16(i)
	}
	// LookupList
	w.patch16(8, w.len())
	base := w.len()
	w.u16(len(lookups))
	offs := w.len()
	for range lookups {
		w.u16(0)
	}
	for i, l := range lookups {
		w.patch16(offs+2*i, w.len()-base)
		w.raw(l)
	}
	return w.b
}

// SynthGSUBExpansion: k MultipleSubst lookups in one feature stage, each replacing glyph gid
// by n copies of itself: one input glyph asks for n^k output glyphs.
func SynthGSUBExpansion(gid, k, n int) []byte {
	var l wbuf
	l.u16(2, 0, 1, 8) // Lookup: type 2, flag, 1 subtable at 8
	l.u16(1, 0, 1, 8) // MultipleSubstFormat1: coverage patched, 1 sequence at 8
	l.u16(n)          // Sequence
	for i := 0; i < n; i++ {
		l.u16(gid)
	}
	l.patch16(8+2, l.len()-8) // coverage offset from the subtable start
	l.u16(1, 1, gid)
	lookups := make([][]byte, k)
	for i := range lookups {
		lookups[i] = l.b
	}
	return layoutTable("ccmp", lookups)
}

// SynthGSUBRecursion: one contextual lookup (format 3) on glyph gid whose `fan` sequence-lookup
// records all invoke the lookup itself: fan^depth nested applications unless a limit stops them.
func SynthGSUBRecursion(gid, fan int) []byte {
	var l wbuf
	l.u16(5, 0, 1, 8) // Lookup: type 5 (context), 1 subtable at 8
	st := l.len()
	l.u16(3, 1, fan, 0) // format 3, glyphCount 1, seqLookupCount, coverage offset patched
	for i := 0; i < fan; i++ {
		l.u16(0, 0) // sequenceIndex 0, lookupListIndex 0
	}
	l.patch16(st+6, l.len()-st)
	l.u16(1, 1, gid)
	return layoutTable("ccmp", [][]byte{l.b})
}

// SynthCmap12 builds a cmap with one (3,10) format 12 subtable holding the given groups
// (start, end, startGlyph): huge or overlapping groups make enumeration costly.
func SynthCmap12(groups [][3]uint32) []byte {
	var w wbuf
	w.u16(0, 1, 3, 10)
	w.u32(12)
	w.u16(12, 0)
	w.u32(uint32(16 + 12*len(groups)))
	w.u32(0)
	w.u32(uint32(len(groups)))
	for _, g := range groups {
		w.u32(g[0])
		w.u32(g[1])
		w.u32(g[2])
	}
	return w.b
}
