package faultdisk

import (
	"bytes"
	"compress/zlib"
	"encoding/binary"
)

// Container re-packaging: the simulated disk can hold the same (possibly damaged) font inside
// another container, so that faults placed in table contents also reach the WOFF
// decompression path and the collection directory path of the loader.

// sfntTables returns the table records of a plain sfnt image with the bytes that are actually
// present (a record that points past the end of the image yields the part that exists).
func sfntTables(img []byte) (version []byte, tags []string, bodies [][]byte, ok bool) {
	kind, tabs := ParseDirectory(img)
	if kind != KindSfnt || len(tabs) == 0 {
		return nil, nil, nil, false
	}
	for _, t := range tabs {
		lo, hi := t.Offset, t.Offset+t.Length
		if lo < 0 || lo > len(img) {
			lo = len(img)
		}
		if hi < lo {
			hi = lo
		}
		if hi > len(img) {
			hi = len(img)
		}
		tags = append(tags, t.Tag)
		bodies = append(bodies, img[lo:hi])
	}
	return img[:4], tags, bodies, true
}

// WrapWOFF re-packages a plain sfnt image as a WOFF 1.0 file (tables zlib-compressed when that
// is smaller, stored otherwise).
func WrapWOFF(img []byte) ([]byte, bool) {
	version, tags, bodies, ok := sfntTables(img)
	if !ok {
		return nil, false
	}
	n := len(tags)
	var data bytes.Buffer
	type ent struct{ off, comp, orig int }
	ents := make([]ent, n)
	base := 44 + 20*n
	for i, b := range bodies {
		var z bytes.Buffer
		zw := zlib.NewWriter(&z)
		zw.Write(b)
		zw.Close()
		stored := b
		if z.Len() < len(b) {
			stored = z.Bytes()
		}
		ents[i] = ent{base + data.Len(), len(stored), len(b)}
		data.Write(stored)
		for data.Len()%4 != 0 {
			data.WriteByte(0)
		}
	}
	out := make([]byte, base, base+data.Len())
	copy(out, "wOFF")
	copy(out[4:], version)
	binary.BigEndian.PutUint32(out[8:], uint32(base+data.Len()))
	binary.BigEndian.PutUint16(out[12:], uint16(n))
	binary.BigEndian.PutUint32(out[16:], uint32(len(img)))
	binary.BigEndian.PutUint16(out[20:], 1)
	for i, e := range ents {
		r := out[44+20*i:]
		copy(r, tags[i])
		binary.BigEndian.PutUint32(r[4:], uint32(e.off))
		binary.BigEndian.PutUint32(r[8:], uint32(e.comp))
		binary.BigEndian.PutUint32(r[12:], uint32(e.orig))
	}
	return append(out, data.Bytes()...), true
}

// WrapTTC re-packages a plain sfnt image as a TrueType collection of `fonts` members that
// share every table.
func WrapTTC(img []byte, fonts int) ([]byte, bool) {
	version, tags, bodies, ok := sfntTables(img)
	if !ok || fonts < 1 {
		return nil, false
	}
	n := len(tags)
	dirSize := 12 + 16*n
	base := 12 + 4*fonts + fonts*dirSize
	offs := make([]int, n)
	var data bytes.Buffer
	for i, b := range bodies {
		offs[i] = base + data.Len()
		data.Write(b)
		for data.Len()%4 != 0 {
			data.WriteByte(0)
		}
	}
	out := make([]byte, base, base+data.Len())
	copy(out, "ttcf")
	binary.BigEndian.PutUint32(out[4:], 0x00010000)
	binary.BigEndian.PutUint32(out[8:], uint32(fonts))
	for f := 0; f < fonts; f++ {
		d := 12 + 4*fonts + f*dirSize
		binary.BigEndian.PutUint32(out[12+4*f:], uint32(d))
		copy(out[d:], version)
		binary.BigEndian.PutUint16(out[d+4:], uint16(n))
		for i := range tags {
			r := out[d+12+16*i:]
			copy(r, tags[i])
			binary.BigEndian.PutUint32(r[8:], uint32(offs[i]))
			binary.BigEndian.PutUint32(r[12:], uint32(len(bodies[i])))
		}
	}
	return append(out, data.Bytes()...), true
}
