package engines

// Engine `faultdisk` (property C09): font files are served by a simulated disk
// behind the opentype.Resource seam, with stored-byte faults (truncation, bit
// flips, field overwrites, zeroed sectors, swapped table bodies — aimed at
// table boundaries, directory entries and table headers) and transient I/O
// faults (EIO, early EOF, legal short reads at the k-th call). Loading, every
// face query and shaping run under deterministic tick and allocation budgets
// in an instrumented build.

import (
	"bytes"
	"encoding/binary"
	"encoding/json"
	"fmt"
	"runtime"
	"sort"
	"strings"

	"github.com/go-text/typesetting/di"
	"github.com/go-text/typesetting/font"
	ot "github.com/go-text/typesetting/font/opentype"
	"github.com/go-text/typesetting/fontscan"
	"github.com/go-text/typesetting/harfbuzz"
	"github.com/go-text/typesetting/language"
	"github.com/go-text/typesetting/shaping"
	"golang.org/x/image/math/fixed"

	"verifsim/corpus"
	"verifsim/faultdisk"
	"verifsim/kernel"
)

func init() { register("faultdisk", func() kernel.Engine { return &fdEngine{} }) }

type fdEngine struct{}

func (*fdEngine) Name() string     { return "faultdisk" }
func (*fdEngine) Property() string { return "C09" }

// ByteFault is a stored-byte fault: the image differs from what was written.
type ByteFault struct {
	Kind string `json:"kind"` // trunc | flip | set16 | set32 | zero | swap
	Off  int    `json:"off"`
	Val  uint32 `json:"val,omitempty"`
	Len  int    `json:"len,omitempty"`
	Off2 int    `json:"off2,omitempty"`
	// where the fault was aimed (evidence only)
	Aim string `json:"aim,omitempty"`
	// graft: table Tag is replaced by Data (an adversarial table written by the simulator)
	Tag  string `json:"tag,omitempty"`
	Data []byte `json:"data,omitempty"`
}

type FDCase struct {
	Family string                `json:"family"` // pristine | systematic | random
	Font   string                `json:"font"`
	Bytes  []ByteFault           `json:"bytes,omitempty"`
	IO     []faultdisk.ReadFault `json:"io,omitempty"`
	QSeed  uint64                `json:"qseed"`
	// Via: which entry point opens the font
	Via string `json:"via"` // parsettc | addfont
	// Gid: a glyph the battery must query (the target of a structure-aware fault)
	Gid int `json:"gid,omitempty"`
	// SysTotal: size of the complete systematic list (set in run 0 only, for the evidence)
	SysTotal int `json:"sys_total,omitempty"`
	// Steps, GSeed: family "guided" only — a coverage-guided campaign of Steps executions on
	// one font, every choice drawn from GSeed (see campaign)
	Steps int    `json:"steps,omitempty"`
	GSeed uint64 `json:"gseed,omitempty"`
	// Wrap: the (faulted) plain sfnt image is stored on the simulated disk re-packaged as
	// "woff" (zlib-compressed tables) or "ttc" (a collection of two members sharing all tables)
	Wrap string `json:"wrap,omitempty"`
	// Post: stored-byte faults applied to the re-packaged container (its own directory fields)
	Post []ByteFault `json:"post,omitempty"`
}

// storedImage applies the byte faults and the container re-packaging of a case.
func storedImage(c *FDCase, pristine []byte) []byte {
	img := applyByteFaults(pristine, c.Bytes)
	switch c.Wrap {
	case "woff":
		if w, ok := faultdisk.WrapWOFF(img); ok {
			return applyByteFaults(w, c.Post)
		}
	case "ttc":
		if w, ok := faultdisk.WrapTTC(img, 2); ok {
			return applyByteFaults(w, c.Post)
		}
	}
	return img
}

func applyByteFaults(img []byte, fs []ByteFault) []byte {
	out := append([]byte(nil), img...)
	for _, f := range fs {
		if f.Off < 0 {
			continue
		}
		switch f.Kind {
		case "graft":
			if g, ok := faultdisk.Graft(out, f.Tag, f.Data); ok {
				out = g
			}
		case "bytes":
			if f.Off+len(f.Data) <= len(out) {
				copy(out[f.Off:], f.Data)
			}
		case "trunc":
			if f.Off < len(out) {
				out = out[:f.Off]
			}
		case "flip":
			if f.Off < len(out) {
				out[f.Off] ^= 1 << (f.Val % 8)
			}
		case "set16":
			if f.Off+2 <= len(out) {
				binary.BigEndian.PutUint16(out[f.Off:], uint16(f.Val))
			}
		case "set32":
			if f.Off+4 <= len(out) {
				binary.BigEndian.PutUint32(out[f.Off:], f.Val)
			}
		case "zero":
			for i := f.Off; i < f.Off+f.Len && i < len(out); i++ {
				out[i] = 0
			}
		case "swap":
			n := f.Len
			if f.Off+n > len(out) {
				n = len(out) - f.Off
			}
			if f.Off2+n > len(out) {
				n = len(out) - f.Off2
			}
			if n > 0 && (f.Off+n <= f.Off2 || f.Off2+n <= f.Off) {
				tmp := append([]byte(nil), out[f.Off:f.Off+n]...)
				copy(out[f.Off:], out[f.Off2:f.Off2+n])
				copy(out[f.Off2:], tmp)
			}
		}
	}
	return out
}

// ------------------------------------------------------------------ systematic list

type sysFont struct {
	name  string
	cases []ByteFault
}

var (
	sysList  []sysFont
	sysCum   []int
	sysTotal int
)

// systematicCases enumerates, for one pristine image, truncation at every table
// boundary +-{0,1,2,4} and inside every table header (every 4 bytes of the first 32), then
// every directory / header field overwritten with boundary values.
func systematicCases(img []byte) []ByteFault {
	_, tables := faultdisk.ParseDirectory(img)
	seen := map[int]bool{}
	var out []ByteFault
	add := func(off int, aim string) {
		if off < 0 || off >= len(img) || seen[off] {
			return
		}
		seen[off] = true
		out = append(out, ByteFault{Kind: "trunc", Off: off, Aim: aim})
	}
	for _, d := range []int{0, 4, 12, 16, 28} { // container header / first directory records
		add(d, "container-header")
	}
	for _, t := range tables {
		for _, d := range []int{-4, -2, -1, 0, 1, 2, 4} {
			add(t.Offset+d, t.Tag+":start")
			add(t.Offset+t.Length+d, t.Tag+":end")
		}
		for h := 4; h < 32 && h < t.Length; h += 4 {
			add(t.Offset+h, t.Tag+":header")
		}
		add(t.DirEntry+8, t.Tag+":direntry")
	}
	// every 32-bit field of every directory record and every 16/32-bit field of every table
	// header (first 32 bytes) set to 0, 1, max and near-size values
	field := func(kind string, off int, val uint32, aim string) {
		if off < 0 || off+2 > len(img) {
			return
		}
		out = append(out, ByteFault{Kind: kind, Off: off, Val: val, Aim: aim})
	}
	for _, t := range tables {
		for _, d := range []int{8, 12} { // offset, length (sfnt) / offset, compLength (WOFF: 4, 8 handled by the header sweep of the directory)
			for _, v := range []uint32{0, 1, 0xFFFFFFFF, 0x7FFFFFFF, uint32(len(img)), uint32(len(img) - 1), uint32(len(img) + 1), uint32(t.Length + 1)} {
				field("set32", t.DirEntry+d, v, t.Tag+":direntry")
			}
		}
		for h := 0; h < 32 && h+2 <= t.Length; h += 2 {
			for _, v := range []uint32{0, 1, 0xFFFF, 0x7FFF} {
				field("set16", t.Offset+h, v, t.Tag+":header")
			}
			// off by one in either direction: the classic way for a count shared between tables
			// (axes, glyphs, metrics, classes) to disagree with its counterpart
			if t.Offset+h+2 <= len(img) {
				cur := uint32(binary.BigEndian.Uint16(img[t.Offset+h:]))
				for _, v := range []uint32{cur + 1, cur - 1} {
					if v &= 0xFFFF; v != 0 && v != 1 && v != 0xFFFF && v != 0x7FFF {
						field("set16", t.Offset+h, v, t.Tag+":header")
					}
				}
			}
		}
		for h := 0; h < 32 && h+4 <= t.Length; h += 4 {
			for _, v := range []uint32{0, 0xFFFFFFFF, uint32(t.Length), uint32(t.Length + 1)} {
				field("set32", t.Offset+h, v, t.Tag+":header")
			}
		}
	}
	return out
}

func buildSystematic() {
	if sysList != nil {
		return
	}
	for _, name := range corpus.Files() {
		cs := systematicCases(corpus.Bytes(name))
		sysList = append(sysList, sysFont{name, cs})
		sysTotal += len(cs)
		sysCum = append(sysCum, sysTotal)
	}
}

func systematicCase(i int) (string, ByteFault) {
	k := sort.SearchInts(sysCum, i+1)
	base := 0
	if k > 0 {
		base = sysCum[k-1]
	}
	return sysList[k].name, sysList[k].cases[i-base]
}

// ------------------------------------------------------------------ generation

var compositeCache = map[string][]faultdisk.CompositeGlyph{}

func compositesOf(name string, img []byte) []faultdisk.CompositeGlyph {
	if c, ok := compositeCache[name]; ok {
		return c
	}
	c := faultdisk.Composites(img)
	compositeCache[name] = c
	return c
}

var pristineCalls = map[string]int{}

// ioCalls measures the number of I/O calls of the fault-free load + battery.
func ioCalls(name string) int {
	if n, ok := pristineCalls[name]; ok {
		return n
	}
	f := faultdisk.NewFile(corpus.Bytes(name), nil)
	protect(func() {
		faces, err := font.ParseTTC(f)
		if err == nil && len(faces) > 0 {
			_ = faces[0].Upem()
		}
	})
	pristineCalls[name] = f.Calls
	return f.Calls
}

func (e *fdEngine) Generate(seed uint64, tier string, run int) (json.RawMessage, error) {
	rk := kernel.NewRand(seed, "knobs")
	rf := kernel.NewRand(seed, "fault")
	buildSystematic()
	c := FDCase{QSeed: seed, Via: "parsettc"}
	if run == 0 {
		c.SysTotal = sysTotal
	}
	if rk.Chance(0.08) {
		c.Via = "addfont"
	}
	nSys := sysTotal
	if tier == "quick" {
		nSys = 30000 // a window of the systematic list whose start is derived from VERIF_SEED
	}
	files := corpus.Files()
	switch {
	case run < nSys:
		c.Family = "systematic"
		i := run
		if tier == "quick" {
			i = (int(kernel.SplitMix64(kernel.VerifSeed^0xC09C09)%uint64(sysTotal)) + run) % sysTotal
		}
		name, bf := systematicCase(i)
		c.Font, c.Bytes = name, []ByteFault{bf}
		return json.Marshal(c)
	case run < nSys+len(files)/4 && tier == "quick", run < nSys+len(files) && tier != "quick":
		c.Family = "pristine"
		c.Via = "parsettc" // the reference below is a ParseTTC of the same bytes: same entry point
		j := run - nSys
		if tier == "quick" {
			j = (j*4 + int(seed%4)) % len(files)
		}
		c.Font = files[j%len(files)]
		// a third of the fault-free runs serve the font re-packaged as WOFF or as a collection:
		// another container, the same font, hence the same answers (plain sfnt files only)
		if k, _ := faultdisk.ParseDirectory(corpus.Bytes(c.Font)); k == faultdisk.KindSfnt {
			c.Wrap = []string{"", "", "woff", "", "ttc", ""}[int(seed>>8)%6]
		}
		return json.Marshal(c)
	}
	if ticksAvailable && rk.Chance(0.012) {
		// coverage-guided campaign (greybox search over fault sequences): many executions on one
		// font of moderate size, fault lists evolved under coverage feedback from the
		// instrumented build
		c.Family = "guided"
		for try := 0; try < 12; try++ {
			c.Font = kernel.Pick(rk, files)
			if n := len(corpus.Bytes(c.Font)); n > 0 && n <= 300<<10 {
				break
			}
		}
		c.Steps, c.GSeed = 150, seed
		if tier != "quick" {
			c.Steps = 400
		}
		c.Via = "parsettc"
		return json.Marshal(c)
	}
	c.Family = "random"
	// swarm: enabled fault kinds and rates
	c.Font = kernel.Pick(rk, files)
	if rk.Chance(0.35) {
		c.Font = kernel.Pick(rk, append(append(append([]string{}, corpus.Common...), corpus.Variable...), corpus.Bitmap...))
	}
	img := corpus.Bytes(c.Font)
	kind, tables := faultdisk.ParseDirectory(img)
	if rk.Chance(0.02) {
		// adversarial stored image: one table replaced by a small well-formed table that aims at
		// a work limit (shaper buffer length / operation budget, lookup nesting, cmap enumeration)
		if bf, ok := genGraft(rf, c.Font); ok {
			c.Bytes = []ByteFault{bf}
			if bf.Tag == "cmap" && rf.Chance(0.5) {
				c.Via = "addfont"
			}
			return json.Marshal(c)
		}
	}
	if rk.Chance(0.015) {
		// structure-aware adversarial plan: CFF subroutines rewritten in place into an acyclic call
		// chain (fan-out^depth interpreter steps below the nesting limit)
		var otf []string
		for _, f := range files {
			if strings.HasSuffix(strings.ToLower(f), ".otf") {
				otf = append(otf, f)
			}
		}
		for try := 0; try < 8 && len(otf) > 0; try++ {
			name := kernel.Pick(rf, otf)
			pimg := corpus.Bytes(name)
			if len(pimg) > 4<<20 {
				continue
			}
			patches, gid, ok := faultdisk.CFFSubrChain(pimg, rf.Range(3, 9), rf.Intn)
			if !ok {
				continue
			}
			c.Font, c.Gid = name, gid
			for _, p := range patches {
				c.Bytes = append(c.Bytes, ByteFault{Kind: "bytes", Off: p.Off, Data: p.Data, Aim: "CFF:subr-chain"})
			}
			return json.Marshal(c)
		}
	}
	if rk.Chance(0.008) {
		// structure-aware plan: the index subtables of a bitmap location table (EBLC/CBLC) change
		// format (1-5 select how the bytes that follow are read) and get boundary counts
		name := kernel.Pick(rf, corpus.Bitmap[:4])
		pimg := corpus.Bytes(name)
		if hs := faultdisk.BitmapIndexSubtables(pimg); len(hs) > 0 {
			h := kernel.Pick(rf, hs)
			c.Font = name
			c.Bytes = []ByteFault{{Kind: "set16", Off: h, Val: uint32(rf.Range(1, 5)), Aim: "EBLC:index-format"}}
			if rf.Chance(0.7) {
				c.Bytes = append(c.Bytes, ByteFault{Kind: "set32", Off: h + 8 + 4*rf.Intn(2), Val: kernel.Pick(rf, []uint32{0, 1, 0xFFFFFFFF, 0xFFFFFFFE, 0x7FFFFFFF, 0x80000000, 0x3FFFFFFF, 0x40000000}), Aim: "EBLC:index-count"})
			}
			return json.Marshal(c)
		}
	}
	if rk.Chance(0.008) {
		// structure-aware plan: one operator of a CFF Top or Private DICT replaced by another
		// one-byte operator (its operands then mean something else, and what it used to define
		// falls back to the default: predefined charset and encoding, no subroutines, ...)
		var otf []string
		for _, f := range files {
			if strings.HasSuffix(strings.ToLower(f), ".otf") {
				otf = append(otf, f)
			}
		}
		if rf.Chance(0.5) {
			otf = []string{"ot:common/Raleway-v4020-Regular.otf", "ot:common/Lmmono-italic.otf", "ot:common/OldaniaADFStd-Bold.otf", "hb:fonts/SourceSansPro-Regular.otf"}
		}
		for try := 0; try < 6 && len(otf) > 0; try++ {
			name := kernel.Pick(rf, otf)
			pimg := corpus.Bytes(name)
			if len(pimg) > 4<<20 {
				continue
			}
			if ops := faultdisk.CFFDictOperators(pimg); len(ops) > 0 {
				off := kernel.Pick(rf, ops)
				nv := byte(rf.Intn(22))
				if nv == 12 || nv == pimg[off] {
					nv = 13 // UniqueID: a harmless sink for the operands
				}
				c.Font = name
				c.Bytes = []ByteFault{{Kind: "bytes", Off: off, Data: []byte{nv}, Aim: fmt.Sprintf("CFF:dict-operator %d->%d", pimg[off], nv)}}
				return json.Marshal(c)
			}
		}
	}
	if rk.Chance(0.01) {
		// structure-aware adversarial plan: the FDSelect of a CID-keyed CFF font (glyph ranges -> font
		// dict) with one to three of its fields rewritten together: the sentinel, a range's first
		// glyph, a range's font dict index (bound, bound - 1, 255)
		name := kernel.Pick(rf, []string{"hb:harfbuzz_reference/in-house/fonts/7e14e7883ed152baa158b80e207b66114c823a8b.ttf", "hb:harfbuzz_reference/text-rendering-tests/fonts/FDArrayTest65535.otf",
			"hb:harfbuzz_reference/in-house/fonts/6991b13ce889466be6de3f66e891de2bc0f117ee.ttf", "hb:harfbuzz_reference/in-house/fonts/4cbbc461be066fccc611dcc634af6e8cb2705537.ttf"})
		pimg := corpus.Bytes(name)
		if fs, ok := faultdisk.CFFFDSelect3(pimg); ok {
			c.Font = name
			c.Bytes = nil
			glyphAt := func() int {
				return kernel.Pick(rf, []int{0, 1, rf.Intn(min(fs.Glyphs, 30) + 1), rf.Intn(fs.Glyphs + 1), fs.Glyphs - 1, fs.Glyphs, fs.Glyphs + 1})
			}
			for i := rf.Range(1, 3); i > 0; i-- {
				ri := rf.Intn(len(fs.Ranges))
				if rf.Chance(0.6) {
					ri = rf.Intn(min(len(fs.Ranges), 30))
				}
				switch rf.Intn(3) {
				case 0:
					c.Bytes = append(c.Bytes, ByteFault{Kind: "set16", Off: fs.Sentinel, Val: uint32(glyphAt()), Aim: "CFF:fdselect sentinel"})
				case 1:
					c.Bytes = append(c.Bytes, ByteFault{Kind: "set16", Off: fs.Ranges[ri], Val: uint32(glyphAt()), Aim: fmt.Sprintf("CFF:fdselect range %d first", ri)})
				default:
					c.Bytes = append(c.Bytes, ByteFault{Kind: "bytes", Off: fs.Ranges[ri] + 2, Data: []byte{byte(kernel.Pick(rf, []int{fs.NumFD, fs.NumFD - 1, 255, fs.NumFD + 1}))}, Aim: fmt.Sprintf("CFF:fdselect range %d fd", ri)})
				}
			}
			return json.Marshal(c)
		}
	}
	if rk.Chance(0.012) {
		// structure-aware adversarial plan: the packed point numbers of a glyph's variation data
		// rewritten in place (same length) so that the running sum leaves the glyph or wraps
		name := kernel.Pick(rf, corpus.Variable)
		pimg := corpus.Bytes(name)
		if blocks := faultdisk.GvarPointBlocks(pimg, 4); len(blocks) > 0 {
			b := kernel.Pick(rf, blocks)
			n := b.Len
			if n > 130 {
				n = 130 // the count byte holds at most 127 points; the tail of the block keeps its bytes
			}
			c.Font, c.Gid = name, b.GID
			c.Bytes = []ByteFault{{Kind: "bytes", Off: b.Off, Data: faultdisk.AdversarialPoints(n, rf.Intn(4)), Aim: "gvar:point-numbers"}}
			return json.Marshal(c)
		}
	}
	if rk.Chance(0.01) {
		// structure-aware adversarial plan: sbix glyph records turned into references to other
		// glyphs (graphic types 'dupe' and 'flip'): chains, cycles and targets beyond the glyph count
		name := kernel.Pick(rf, []string{"ot:toys/Sbix1.ttf", "ot:toys/Sbix2.ttf", "ot:toys/Sbix3.ttf"})
		pimg := corpus.Bytes(name)
		if gl, ng := faultdisk.SbixGlyphs(pimg); len(gl) > 0 {
			k := rf.Range(1, min(len(gl), 12))
			perm := rf.Perm(len(gl))
			c.Font, c.Bytes = name, nil
			for i := 0; i < k; i++ {
				g := gl[perm[i]]
				var target int
				switch {
				case i+1 < k:
					target = gl[perm[i+1]].GID // chain
				case rf.Chance(0.4):
					target = gl[perm[0]].GID // cycle back to the first
				default:
					target = kernel.Pick(rf, []int{ng, ng - 1, ng + 1, 0xFFFF, 0, g.GID})
				}
				tag := kernel.Pick(rf, []string{"dupe", "dupe", "flip"})
				c.Bytes = append(c.Bytes, ByteFault{Kind: "bytes", Off: g.Off + 4, Data: append([]byte(tag), byte(target>>8), byte(target)), Aim: "sbix:" + tag})
			}
			c.Gid = gl[perm[0]].GID
			return json.Marshal(c)
		}
	}
	if rk.Chance(0.03) {
		// structure-aware plan: one of the dimensions that several tables must agree on (axes,
		// glyphs, long metrics, shared tuples, strikes) is nudged in one table only
		if rk.Chance(0.6) {
			c.Font = kernel.Pick(rk, append(append([]string{}, corpus.Variable...), corpus.Bitmap...))
			img = corpus.Bytes(c.Font)
			_, tables = faultdisk.ParseDirectory(img)
		}
		if bf, ok := genDesync(rf, img, tables); ok {
			c.Bytes = []ByteFault{bf}
			return json.Marshal(c)
		}
	}
	if rk.Chance(0.04) {
		// structure-aware adversarial plan: reference cycles between composite glyphs (every
		// chosen component of a composite is redirected to the glyph itself or to another
		// composite that is redirected back), which defeats a depth limit that is not a work limit
		if comps := compositesOf(c.Font, img); len(comps) > 0 {
			var multi []faultdisk.CompositeGlyph
			for _, cg := range comps {
				if len(cg.IndexOffsets) >= 2 {
					multi = append(multi, cg)
				}
			}
			if len(multi) >= 6 && rf.Chance(0.5) {
				// acyclic variant: a chain of composites, every component of one redirected to the
				// next (fan-out^depth expansions without ever hitting the nesting limit); the last
				// keeps its own components
				depth := rf.Range(6, 24)
				perm := rf.Perm(len(multi))
				if depth > len(perm) {
					depth = len(perm)
				}
				fan := rf.Range(2, 5)
				for i := 0; i+1 < depth; i++ {
					from, to := multi[perm[i]], multi[perm[i+1]]
					for j, off := range from.IndexOffsets {
						if j >= fan {
							break
						}
						c.Bytes = append(c.Bytes, ByteFault{Kind: "set16", Off: off, Val: uint32(to.GID), Aim: "glyf:dag"})
					}
				}
				c.Gid = multi[perm[0]].GID
				return json.Marshal(c)
			}
			if len(multi) > 0 {
				a := kernel.Pick(rf, multi)
				b := kernel.Pick(rf, multi)
				k := rf.Range(2, 6)
				for i, off := range a.IndexOffsets {
					if i >= k {
						break
					}
					target := a.GID
					if rf.Chance(0.4) {
						target = b.GID
					}
					c.Bytes = append(c.Bytes, ByteFault{Kind: "set16", Off: off, Val: uint32(target), Aim: "glyf:cycle"})
				}
				for i, off := range b.IndexOffsets {
					if i >= k || b.GID == a.GID {
						break
					}
					c.Bytes = append(c.Bytes, ByteFault{Kind: "set16", Off: off, Val: uint32(a.GID), Aim: "glyf:cycle"})
				}
				c.Gid = a.GID
				return json.Marshal(c)
			}
		}
	}
	nByte := rk.Weighted([]int{2, 6, 3, 1})
	nIO := rk.Weighted([]int{6, 3, 1})
	if nByte == 0 && nIO == 0 {
		nByte = 1
	}
	kw := make([]int, len(faultKinds))
	for i := range kw {
		if rk.Chance(0.7) {
			kw[i] = rk.Range(1, 5)
		}
	}
	kw[rk.Intn(len(kw))] += 2
	for i := 0; i < nByte; i++ {
		c.Bytes = append(c.Bytes, genByteFault(rf, kw, img, tables))
	}
	if kind == faultdisk.KindSfnt && rk.Chance(0.1) {
		c.Wrap = kernel.Pick(rk, []string{"woff", "woff", "ttc"})
		if rk.Chance(0.5) {
			// one field of the container's own directory (offset, stored length, original length)
			if wimg := storedImage(&c, img); len(wimg) > 0 {
				if _, wt := faultdisk.ParseDirectory(wimg); len(wt) > 0 {
					t := kernel.Pick(rf, wt)
					fields := []int{8, 12}
					if c.Wrap == "woff" {
						fields = []int{4, 8, 12}
					}
					vals := []uint32{0, 1, 0xFFFFFFFF, 0x7FFFFFFF, 0x80000000, uint32(len(wimg)), uint32(len(wimg) + 1), 1<<20 + 1, 1 << 29, uint32(t.Length + 1), uint32(t.Length - 1)}
					c.Post = []ByteFault{{Kind: "set32", Off: t.DirEntry + kernel.Pick(rf, fields), Val: kernel.Pick(rf, vals), Aim: t.Tag + ":" + c.Wrap + "-direntry"}}
				}
			}
		}
	}
	if nIO > 0 {
		calls := ioCalls(c.Font)
		for i := 0; i < nIO; i++ {
			c.IO = append(c.IO, faultdisk.ReadFault{Call: rf.Intn(calls + 2), Kind: kernel.Pick(rf, []string{"eio", "eof", "short", "short"}), N: rf.Range(1, 64)})
		}
	}
	return json.Marshal(c)
}

// genGraft draws an adversarial table for a plain sfnt font that has the table to replace.
func genGraft(rf *kernel.Rand, name string) (ByteFault, bool) {
	img := corpus.Bytes(name)
	kind, tabs := faultdisk.ParseDirectory(img)
	if kind != faultdisk.KindSfnt {
		return ByteFault{}, false
	}
	has := map[string]bool{}
	for _, t := range tabs {
		has[t.Tag] = true
	}
	fonts := corpus.Fonts(name)
	if len(fonts) == 0 {
		return ByteFault{}, false
	}
	gid, ok := font.NewFace(fonts[0]).NominalGlyph('a')
	if !ok {
		return ByteFault{}, false
	}
	switch m := rf.Intn(6); {
	case m == 5:
		// 'kern' format 3 (class pairs through an index array): every array is in range except one
		// element, set to its bound (one past the end), its bound minus one, or 255
		dims := [4]int{rf.Range(2, 8), rf.Range(1, 4), rf.Range(1, 4), rf.Range(1, 4)} // glyphs, values, left classes, right classes
		which, at, how := rf.Intn(3), rf.Intn(64), rf.Intn(3)
		return ByteFault{Kind: "graft", Tag: "kern", Data: faultdisk.SynthKern3(dims, which, at, how, rf.Bool()), Aim: fmt.Sprintf("kern:format 3 %v, array %d element %d variant %d", dims, which, at, how)}, true
	case m == 4 && has["GPOS"]:
		se := kernel.Pick(rf, [][2]int{{0, 0xFFFF}, {0, 0xFFFE}, {1, 0xFFFF}, {16, 16}, {17, 16}, {0, 15}})
		return ByteFault{Kind: "graft", Tag: "GPOS", Data: faultdisk.SynthGPOSDevice(int(gid), se[0], se[1], rf.Range(1, 3)), Aim: fmt.Sprintf("GPOS:device table sizes %d-%d", se[0], se[1])}, true
	case m == 3:
		// a table the font may not even have: kerx format 0 with tuples, pair values are offsets
		return ByteFault{Kind: "graft", Tag: "kerx", Data: faultdisk.SynthKerx0Tuple(int(gid), int(gid), uint16(kernel.Pick(rf, []int{0x7FFE, 0x8000, 0x8004, 0xFFFE, 40})), kernel.Pick(rf, []int{64, 0x8100, 0x10010})), Aim: "kerx:format 0 with tuples"}, true
	case m == 0 && has["GSUB"]:
		k, n := rf.Range(5, 16), rf.Range(2, 8)
		return ByteFault{Kind: "graft", Tag: "GSUB", Data: faultdisk.SynthGSUBExpansion(int(gid), k, n), Aim: fmt.Sprintf("GSUB:expansion %d^%d", n, k)}, true
	case m == 1 && has["GSUB"]:
		fan := kernel.Pick(rf, []int{2, 3, 4, 8, 16, 64, 255})
		return ByteFault{Kind: "graft", Tag: "GSUB", Data: faultdisk.SynthGSUBRecursion(int(gid), fan), Aim: fmt.Sprintf("GSUB:recursion fan-out %d", fan)}, true
	case has["cmap"] && rf.Chance(0.25):
		if base := faultdisk.FirstCmapSubtable4(img); base != nil {
			n, m := kernel.Pick(rf, []int{16, 2000, 12000}), kernel.Pick(rf, []int{16, 4000, 20000})
			return ByteFault{Kind: "graft", Tag: "cmap", Data: faultdisk.SynthCmap14Aliased(base, n, m), Aim: fmt.Sprintf("cmap:format 14, %d selectors sharing one table of %d ranges", n, m)}, true
		}
		fallthrough
	case has["cmap"]:
		var groups [][3]uint32
		switch rf.Intn(4) {
		case 0:
			groups = [][3]uint32{{0x20, 0x10FFFF, 1}}
		case 1:
			groups = [][3]uint32{{0, 0xFFFFFFFF, 0}}
		case 2:
			for i, n := 0, kernel.Pick(rf, []int{50, 400, 3000, 12000}); i < n; i++ {
				groups = append(groups, [3]uint32{0x20, 0x10FFFF, uint32(i)})
			}
		default:
			groups = [][3]uint32{{0x61, 0x61, uint32(gid)}, {0x10FFFF, 0x20, 1}, {0x7FFFFFF0, 0x80000010, 1}}
		}
		return ByteFault{Kind: "graft", Tag: "cmap", Data: faultdisk.SynthCmap12(groups), Aim: fmt.Sprintf("cmap:format 12, %d groups", len(groups))}, true
	}
	return ByteFault{}, false
}

// dimensionFields: 16-bit fields (table tag, offset in the table) holding a dimension that other
// tables, or other parts of the same table, are sized by.
var dimensionFields = []struct {
	tag string
	off int
}{
	{"fvar", 8}, {"fvar", 10}, {"fvar", 12}, {"fvar", 14}, {"gvar", 4}, {"gvar", 6}, {"gvar", 12}, {"avar", 6},
	{"maxp", 4}, {"hhea", 34}, {"vhea", 34}, {"STAT", 4}, {"STAT", 6}, {"STAT", 12}, {"post", 32}, {"head", 50}, {"head", 18},
	{"cvar", 4}, {"kern", 2}, {"CBLC", 6}, {"EBLC", 6}, {"sbix", 6}, {"CPAL", 2}, {"CPAL", 4}, {"CPAL", 6}, {"COLR", 2}, {"COLR", 12},
	{"hdmx", 2}, {"LTSH", 2}, {"VORG", 6}, {"SVG ", 10}, {"cmap", 2}, {"name", 2}, {"trak", 4}, {"feat", 4}, {"ankr", 2},
}

func genDesync(rf *kernel.Rand, img []byte, tables []faultdisk.TableRef) (ByteFault, bool) {
	var cands []ByteFault
	for _, t := range tables {
		for _, d := range dimensionFields {
			if t.Tag == d.tag && d.off+2 <= t.Length && t.Offset+d.off+2 <= len(img) {
				cands = append(cands, ByteFault{Kind: "set16", Off: t.Offset + d.off, Aim: fmt.Sprintf("%s+%d:dimension", t.Tag, d.off)})
			}
		}
	}
	if len(cands) == 0 {
		return ByteFault{}, false
	}
	bf := kernel.Pick(rf, cands)
	cur := int(binary.BigEndian.Uint16(img[bf.Off:]))
	v := cur + kernel.Pick(rf, []int{1, 1, -1, -1, 2, -2, cur, -cur / 2})
	if v < 0 {
		v = 0
	}
	bf.Val = uint32(v) & 0xFFFF
	return bf, true
}

var faultKinds = []string{"trunc", "flip", "set16", "set32", "zero", "swap"}

// genByteFault draws one stored-byte fault: kind by the weights kw, placement aimed (75%) at
// table headers, directory records, boundaries and body fields of the parsed directory.
func genByteFault(rf *kernel.Rand, kw []int, img []byte, tables []faultdisk.TableRef) ByteFault {
	kinds := faultKinds
	bf := ByteFault{Kind: kinds[rf.Weighted(kw)]}
	aimed := len(tables) > 0 && rf.Chance(0.75)
	var t faultdisk.TableRef
	if aimed {
		t = kernel.Pick(rf, tables)
	}
	vals32 := []uint32{0, 1, 2, 0xFFFFFFFF, 0x7FFFFFFF, 0x80000000, uint32(len(img)), uint32(len(img) - 1), uint32(len(img) + 1), 0xFFFF, 0x10000}
	vals16 := []uint32{0, 1, 2, 0xFFFF, 0x7FFF, 0x8000, 0xFFFE, 0x100}
	// small numbers: formats, lookup types, feature types and selectors are enumerations below 64
	// (a field that selects how the following bytes are read, set to another legal value)
	vals16 = append(vals16, uint32(rf.Intn(64)), uint32(rf.Intn(16)))
	switch bf.Kind {
	case "trunc":
		if aimed {
			bf.Off = kernel.Pick(rf, []int{t.Offset, t.Offset + t.Length, t.Offset + rf.Intn(64), t.Offset + rf.Intn(t.Length+1)}) + kernel.Pick(rf, []int{0, 0, -1, 1, -2, 2, -4, 4})
			bf.Aim = t.Tag
		} else {
			bf.Off = rf.Intn(len(img) + 1)
		}
	case "flip":
		bf.Val = uint32(rf.Intn(8))
		if aimed {
			bf.Off, bf.Aim = t.Offset+rf.Intn(min(64, t.Length+1)), t.Tag+":header"
			if rf.Chance(0.25) {
				bf.Off, bf.Aim = t.DirEntry+rf.Intn(16), t.Tag+":direntry"
			}
		} else {
			bf.Off = rf.Intn(len(img) + 1)
		}
	case "set16":
		bf.Val = kernel.Pick(rf, vals16)
		if aimed {
			bf.Off, bf.Aim = t.Offset+2*rf.Intn(min(32, t.Length/2+1)), t.Tag+":header"
			if rf.Chance(0.3) {
				bf.Off = t.Offset + 2*rf.Intn(t.Length/2+1)
				bf.Aim = t.Tag + ":body"
			}
		} else {
			bf.Off = rf.Intn(len(img) + 1)
		}
	case "set32":
		bf.Val = kernel.Pick(rf, vals32)
		if aimed && len(tables) > 0 && rf.Chance(0.2) {
			bf.Val = uint32(kernel.Pick(rf, tables).Offset) // another table's offset
		}
		if aimed {
			switch rf.Intn(3) {
			case 0:
				bf.Off, bf.Aim = t.DirEntry+8+4*rf.Intn(2), t.Tag+":direntry" // offset or length
			case 1:
				bf.Off, bf.Aim = t.Offset+4*rf.Intn(min(16, t.Length/4+1)), t.Tag+":header"
			default:
				bf.Off, bf.Aim = t.Offset+4*rf.Intn(t.Length/4+1), t.Tag+":body"
			}
		} else {
			bf.Off = rf.Intn(len(img) + 1)
		}
	case "zero":
		bf.Len = kernel.Pick(rf, []int{16, 64, 512, 4096})
		if aimed {
			bf.Off, bf.Aim = t.Offset+rf.Intn(t.Length+1), t.Tag
		} else {
			bf.Off = rf.Intn(len(img)+1) / 512 * 512
		}
	case "swap":
		if len(tables) >= 2 {
			a, b := kernel.Pick(rf, tables), kernel.Pick(rf, tables)
			bf.Off, bf.Off2, bf.Len = a.Offset, b.Offset, min(a.Length, b.Length)
			bf.Aim = a.Tag + "<>" + b.Tag
		} else {
			bf.Kind, bf.Off = "trunc", rf.Intn(len(img)+1)
		}
	}
	if bf.Off < 0 {
		bf.Off = 0
	}
	return bf
}

func min(a, b int) int {
	if a < b {
		return a
	}
	return b
}

// ------------------------------------------------------------------ execution

type budgetPanic struct{}

// budgets: linear in the image size. The constants are calibrated on the pristine
// corpus (see DESIGN.md): the most expensive pristine load+battery stays two
// orders of magnitude below them.
func tickBudget(n int) uint64 { return 40_000_000 + 4000*uint64(n) }

// shapeTickBudget: shaping a short text is bounded by the shaper's own operation budget
// (a constant number of operations, each of which may touch the whole, likewise bounded,
// glyph buffer), not by the image size: an adversarial 2 KiB AAT insertion table legitimately
// costs a few hundred million steps for six runes, a fixed ceiling that no input exceeds.
// The budget is therefore a flat ceiling well above that plus the linear term; a shaping call
// beyond it is a hang or a blow-up under any reading of the property.
func shapeTickBudget(n int) uint64 { return 2_000_000_000 + 4000*uint64(n) }
func allocBudget(n int) uint64     { return 256<<20 + 600*uint64(n) }

type fdWorld struct {
	out    *kernel.Outcome
	img    []byte
	ticks0 uint64
	budget uint64 // budget of the phase in progress (for the report)
	// allocation attribution: a case that exceeds the allocation budget is executed a second
	// time with runtime.MemProfileRate = 1 (wantProfile -> profiled)
	wantProfile bool
	profiled    bool
	// shapeAllocExtra: added to the allocation budget once the battery has entered its shaping part
	shapeAllocExtra uint64
	prof0           map[string]int64
}

// allocProfile returns the bytes allocated so far per innermost library function.
func allocProfile() map[string]int64 {
	runtime.GC()
	runtime.GC()
	n, _ := runtime.MemProfile(nil, true)
	recs := make([]runtime.MemProfileRecord, n+256)
	n, ok := runtime.MemProfile(recs, true)
	if !ok {
		return nil
	}
	out := map[string]int64{}
	for _, r := range recs[:n] {
		frames := runtime.CallersFrames(r.Stack())
		for {
			f, more := frames.Next()
			if strings.Contains(f.Function, "go-text/typesetting/") && !strings.Contains(f.Function, "/verifsim.") {
				fn := f.Function[strings.Index(f.Function, "go-text/typesetting/")+len("go-text/typesetting/"):]
				out[fn] += r.AllocBytes
				break
			}
			if !more {
				break
			}
		}
	}
	return out
}

func dominantAllocSite(before map[string]int64) (string, int64) {
	after := allocProfile()
	best, bytes := "", int64(0)
	for _, fn := range kernel.SortedKeys(after) {
		if d := after[fn] - before[fn]; d > bytes {
			best, bytes = fn, d
		}
	}
	return best, bytes
}

// enterShaping re-arms the step budget when the battery moves from queries to shaping.
func (w *fdWorld) enterShaping() {
	// like the step ceiling, the allocation ceiling of the shaping calls is flat: the shaper bounds
	// the glyph buffer by its own limit (maxLen), and with a variable font without HVAR every
	// output glyph costs an outline computation — half a gigabyte of short-lived allocations
	// for six runes under a GSUB expansion chain is the library working within its limits
	w.shapeAllocExtra = 4 << 30
	w.budget = shapeTickBudget(len(w.img))
	tickArm(w.budget, func() {
		tickDisarm()
		panic(budgetPanic{})
	})
}

// guarded runs f under the tick budget; panics and budget trips become data.
func (w *fdWorld) guarded(what string, budget uint64, f func()) (v *kernel.Violation) {
	w.budget = budget
	w.shapeAllocExtra = 0
	if w.profiled {
		w.prof0 = allocProfile()
		profStart()
		defer profStop()
	}
	tickArm(budget, func() {
		tickDisarm()
		panic(budgetPanic{})
	})
	var m0, m1 runtime.MemStats
	runtime.ReadMemStats(&m0)
	start := tickCount()
	defer func() {
		tickDisarm()
		used := tickCount() - start
		w.out.Count("ticks", int64(used))
		// calibration data for the budgets: high-water marks relative to the budget (per mille)
		if pm := int64(used * 1000 / w.budget); pm > w.out.Counters["max.ticks_permille_of_budget"] {
			w.out.Counters["max.ticks_permille_of_budget"] = pm
		}
		if r := recover(); r != nil {
			site, where := kernel.PanicSite(3)
			if _, isBudget := r.(budgetPanic); isBudget {
				// identity: the API call that did not come back within the budget (where the count
				// ran out is arbitrary and only goes into the detail)
				if outer := kernel.OutermostLibSite(3); outer != "" {
					site = outer
				}
				if w.profiled {
					// second execution with the step profile on: the finding is identified by the
					// function that consumed most steps (like allocation findings by the function that
					// allocated most), whichever API call happened to be in progress
					profStop()
					if fn, n := profDominant(); fn != "" {
						site = fn
						where += fmt.Sprintf("; %d steps spent in %s, %d in %s", n, fn, profSecondN, profSecond)
					}
				} else {
					w.wantProfile = true
				}
				v = &kernel.Violation{Oracle: "bounded-time", Site: what + ":" + site,
					Detail: fmt.Sprintf("%s exceeded the step budget of %d ticks for a %d-byte image (at %s)", what, w.budget, len(w.img), where)}
				return
			}
			if fb, ok := r.(fidelityBreach); ok {
				v = &kernel.Violation{Oracle: "reader-fidelity", Site: "RawTable", Detail: string(fb)}
				return
			}
			if eb, ok := r.(enumBreach); ok {
				v = &kernel.Violation{Oracle: "bounded-enumeration", Site: "Cmap.Iter", Detail: string(eb)}
				return
			}
			v = &kernel.Violation{Oracle: "no-panic", Site: site,
				Detail: fmt.Sprintf("%s panicked: %s at %s", what, kernel.PanicKind(r), where)}
			return
		}
		runtime.ReadMemStats(&m1)
		if pm := int64((m1.TotalAlloc - m0.TotalAlloc) * 1000 / allocBudget(len(w.img))); pm > w.out.Counters["max.alloc_permille_of_budget"] {
			w.out.Counters["max.alloc_permille_of_budget"] = pm
		}
		if alloc := m1.TotalAlloc - m0.TotalAlloc; alloc > allocBudget(len(w.img))+w.shapeAllocExtra {
			v = &kernel.Violation{Oracle: "bounded-memory", Site: what,
				Detail: fmt.Sprintf("%s allocated %d bytes for a %d-byte image (budget %d)", what, alloc, len(w.img), allocBudget(len(w.img)))}
			if w.profiled {
				// second execution of the case with every allocation recorded: the identity of
				// the finding is the library function that allocated most
				if site, bytes := dominantAllocSite(w.prof0); site != "" {
					v.Site = what + ":" + site
					v.Detail += fmt.Sprintf("; %d bytes allocated in %s", bytes, site)
				}
			} else {
				w.wantProfile = true
			}
		}
		if used > w.maxTicks() {
			w.out.Count("max_ticks_per_byte_x1000", 0)
		}
	}()
	f()
	return nil
}

func (w *fdWorld) maxTicks() uint64 { return ^uint64(0) }

func (e *fdEngine) Execute(raw json.RawMessage) (*kernel.Outcome, error) {
	var probe struct {
		Family string `json:"family"`
	}
	if json.Unmarshal(raw, &probe) == nil && probe.Family == "guided" {
		return e.campaign(raw)
	}
	out, again, err := e.execute(raw, false)
	if err == nil && again {
		old := runtime.MemProfileRate
		runtime.MemProfileRate = 1
		out2, _, err2 := e.execute(raw, true)
		runtime.MemProfileRate = old
		if err2 == nil && out2.Violation != nil && out.Violation != nil && out2.Violation.Oracle == out.Violation.Oracle && strings.HasPrefix(out2.Violation.Site, strings.SplitN(out.Violation.Site, ":", 2)[0]) {
			out.Violation = out2.Violation
		}
	}
	return out, err
}

func (e *fdEngine) execute(raw json.RawMessage, profiled bool) (*kernel.Outcome, bool, error) {
	var c FDCase
	if err := json.Unmarshal(raw, &c); err != nil {
		return nil, false, err
	}
	out := &kernel.Outcome{}
	pristine := corpus.Bytes(c.Font)
	img := storedImage(&c, pristine)
	w := &fdWorld{out: out, img: img, profiled: profiled}
	if c.Wrap != "" {
		out.Count("container.repackaged_as_"+c.Wrap, 1)
	}
	out.Count("family."+c.Family, 1)
	if c.SysTotal > 0 {
		out.Count("systematic_list_size", int64(c.SysTotal)) // reported by run 0 only
	}
	if c.Family == "systematic" {
		out.Count("exhaustive_cases", 1)
	}
	for _, b := range c.Bytes {
		out.Count("fault.byte_"+b.Kind, 1)
	}
	file := faultdisk.NewFile(img, c.IO)
	kind, _ := faultdisk.ParseDirectory(pristine)

	var faces []*font.Face
	var lerr error
	var digest string
	v := w.guarded("load", tickBudget(len(img)), func() {
		if c.Via == "addfont" {
			fm := fontscan.NewFontMap(nopLogger{})
			lerr = fm.AddFont(file, "sim.ttf", "")
			if lerr == nil {
				if f := fm.ResolveFace('a'); f != nil {
					faces = []*font.Face{f}
				}
			}
			return
		}
		faces, lerr = font.ParseTTC(file)
	})
	out.Count("op.load", 1)
	for k, n := range file.Fired {
		out.Count("fault.io_"+k, int64(n))
	}
	outcome := "open-error"
	if v == nil && lerr == nil {
		outcome = "opened"
		if len(faces) == 0 && c.Via != "addfont" {
			v = &kernel.Violation{Oracle: "error-or-faces", Site: "load:no-faces", Detail: "ParseTTC returned neither an error nor any face"}
		}
		for i, f := range faces {
			if f == nil && v == nil {
				v = &kernel.Violation{Oracle: "error-or-faces", Site: "load:nil-face", Detail: fmt.Sprintf("face %d is nil without error", i)}
			}
		}
	}
	if v == nil && lerr == nil {
		if len(faces) > 3 {
			faces = faces[:3]
		}
		for i, f := range faces {
			var d string
			v = w.guarded(fmt.Sprintf("queries"), tickBudget(len(img)), func() { d = batteryPhased(f, c.QSeed, out, w.enterShaping, font.GID(c.Gid)) })
			digest += fmt.Sprintf("face%d:%s\n", i, d)
			if v != nil {
				break
			}
		}
	}
	if v == nil && len(c.IO) == 0 {
		if len(c.Post) > 0 {
			// the container's own directory is damaged: what a record points at is then undefined
		} else if c.Wrap != "" {
			v = w.readerFidelity(applyByteFaults(pristine, c.Bytes), img)
		} else {
			v = w.readerFidelity(img, img)
		}
	}
	if len(c.Bytes)+len(c.IO) > 0 && (len(c.Bytes) > 0 || len(file.Fired) > 0) {
		out.Nontrivial = true
	}
	aim := "uniform"
	if len(c.Bytes) > 0 && c.Bytes[0].Aim != "" {
		aim = c.Bytes[0].Aim
		if i := strings.IndexByte(aim, ':'); i > 0 {
			aim = aim[:i]
		}
	}
	fk := "io"
	if len(c.Bytes) > 0 {
		fk = c.Bytes[0].Kind
	}
	out.States = append(out.States, fmt.Sprintf("%s|%s|%s|%s", kind, aim, fk, outcome))
	out.Count("outcome."+outcome, 1)
	if v == nil && c.Family == "pristine" && c.Via != "addfont" {
		// the stronger oracle of the fault-free family: loading through the simulated disk
		// equals loading through a plain bytes.Reader
		var want string
		rv := w.guarded("reference load", tickBudget(len(img)), func() {
			rf, err := font.ParseTTC(bytes.NewReader(pristine))
			if (err != nil) != (lerr != nil) {
				want = fmt.Sprintf("error mismatch: bytes.Reader err=%v, simulated disk err=%v", err, lerr)
				return
			}
			if len(rf) > 3 {
				rf = rf[:3]
			}
			for i, f := range rf {
				want += fmt.Sprintf("face%d:%s\n", i, battery(f, c.QSeed, &kernel.Outcome{}, font.GID(c.Gid)))
			}
			if c.Wrap == "ttc" && len(rf) == 1 {
				// both members of the collection are the same font
				f2, err := font.ParseTTC(bytes.NewReader(pristine))
				if err == nil && len(f2) == 1 {
					want += fmt.Sprintf("face1:%s\n", battery(f2[0], c.QSeed, &kernel.Outcome{}, font.GID(c.Gid)))
				}
			}
		})
		if rv == nil && want != digest {
			v = &kernel.Violation{Oracle: "pristine-equivalence", Site: "load:differs-from-bytes-reader",
				Detail: "fault-free simulated disk and bytes.Reader disagree: " + firstDiff(digest, want)}
		}
		out.Nontrivial = true
		out.Count("check.pristine_equivalence", 1)
	}
	if v == nil && len(c.Bytes) == 0 && len(c.IO) > 0 && lerr != nil {
		onlyShort := true
		for _, f := range c.IO {
			if f.Kind != "short" {
				onlyShort = false
			}
		}
		if onlyShort && file.Fired["short"] > 0 {
			out.Count("spurious_error_under_legal_short_reads", 1)
		}
	}
	out.Violation = v
	out.Trace = kernel.HashString(digest + fmt.Sprint(lerr != nil))
	return out, w.wantProfile && v != nil && (v.Oracle == "bounded-memory" || v.Oracle == "bounded-time"), nil
}

// readerFidelity: the loader hands out what the disk holds. For a plain sfnt image (no
// transient fault in this run) every table the loader returns without error must be
// byte-identical to the image at the directory's offset and length, and a table that
// extends past the end of the image cannot be returned at all: no fabricated bytes, no
// partial read passed off as complete.
func (w *fdWorld) readerFidelity(img, stored []byte) (v *kernel.Violation) {
	// img: the plain sfnt image whose directory says what each table holds; stored: what the
	// simulated disk serves (img itself, or img re-packaged as WOFF / TTC: then the loader must
	// hand out, for every member, exactly the bytes that were packed)
	kind, tabs := faultdisk.ParseDirectory(img)
	if kind != faultdisk.KindSfnt || len(tabs) == 0 {
		return nil
	}
	repacked := len(stored) != len(img) || !bytes.Equal(stored, img)
	if repacked {
		// packed bodies are clipped to the bytes that exist
		for i := range tabs {
			if tabs[i].Offset > len(img) {
				tabs[i].Length = 0
			} else if tabs[i].Offset+tabs[i].Length > len(img) {
				tabs[i].Length = len(img) - tabs[i].Offset
			}
		}
	}
	seen := map[string]int{}
	for _, t := range tabs {
		seen[t.Tag]++
	}
	return w.guarded("table reads", tickBudget(len(img)), func() {
		lds, err := ot.NewLoaders(faultdisk.NewFile(stored, nil))
		if err != nil || (len(lds) != 1 && !repacked) {
			return
		}
		for _, ld := range lds {
			for _, t := range tabs {
				if seen[t.Tag] != 1 || t.Length == 0 || t.Length > 64<<20 || t.Offset < 0 {
					continue
				}
				tag, terr := ot.NewTag(t.Tag[0], t.Tag[1], t.Tag[2], t.Tag[3]), error(nil)
				raw, terr := ld.RawTable(tag)
				w.out.Count("check.reader_fidelity", 1)
				if terr != nil {
					continue
				}
				if t.Offset+t.Length > len(img) {
					panic(fidelityBreach(fmt.Sprintf("table %q (offset %d, length %d) extends past the %d-byte image but RawTable returned %d bytes without error", t.Tag, t.Offset, t.Length, len(img), len(raw))))
				}
				if !bytes.Equal(raw, img[t.Offset:t.Offset+t.Length]) {
					panic(fidelityBreach(fmt.Sprintf("RawTable(%q) differs from the image at offset %d, length %d", t.Tag, t.Offset, t.Length)))
				}
			}
		}
	})
}

type fidelityBreach string

type enumBreach string

// battery runs every kind of query and a few shapings on a face and returns a digest.
func battery(f *font.Face, seed uint64, out *kernel.Outcome, extra ...font.GID) string {
	return batteryPhased(f, seed, out, nil, extra...)
}

// batteryPhased calls onShaping (if any) between the query part and the shaping part.
func batteryPhased(f *font.Face, seed uint64, out *kernel.Outcome, onShaping func(), extra ...font.GID) string {
	var sb strings.Builder
	r := kernel.NewRand(seed, "battery")
	var runes []rune
	var gids []font.GID
	if f.Cmap != nil {
		// some cmap formats iterate over a Go map: collect, then sort, so that the sample
		// does not depend on map iteration order
		type pair struct {
			r rune
			g font.GID
		}
		var all []pair
		it := f.Cmap.Iter()
		n := 0
		for ; it.Next() && n <= 2*0x110000; n++ {
			ru, g := it.Char()
			if n < 3000 {
				all = append(all, pair{ru, g})
			}
		}
		if n > 2*0x110000 {
			// more than two mappings per existing code point: the enumeration of a character map is
			// out of proportion whatever the caller does with it. (Not "more than one": a subtable
			// may legitimately cover all of Unicode with one group, and groups may share their
			// boundary code point.)
			panic(enumBreach(fmt.Sprintf("the cmap iterator yielded more than %d mappings", 2*0x110000)))
		}
		sort.Slice(all, func(i, j int) bool { return all[i].r < all[j].r })
		for n, p := range all {
			if n < 24 || n%97 == 0 {
				runes = append(runes, p.r)
				gids = append(gids, p.g)
			}
		}
	}
	for _, ru := range []rune{'a', ' ', 0x627, 0x4E2D, 0x1F600, 0xFE0F, 0x10FFFF} {
		g, ok := f.NominalGlyph(ru)
		fmt.Fprintf(&sb, "n%x=%d,%v ", ru, g, ok)
		g2, ok2 := f.VariationGlyph(ru, 0xFE0F)
		fmt.Fprintf(&sb, "v=%d,%v ", g2, ok2)
	}
	for i := 0; i < 24; i++ {
		gids = append(gids, font.GID(i))
	}
	gids = append(gids, 0xFFFF, 0x10000, font.GID(r.Intn(70000)), font.GID(r.Intn(3000)))
	gids = append(gids, extra...)
	out.Count("op.glyph_queries", int64(len(gids)))
	for _, g := range gids {
		ext, ok := f.GlyphExtents(g)
		fmt.Fprintf(&sb, "g%d{%v,%v,%v,%v", g, ext, ok, f.HorizontalAdvance(g), f.VerticalAdvance(g))
		x, y, okv := f.GlyphVOrigin(g)
		px, py, okp := f.GetGlyphContourPoint(g, uint16(r.Intn(5)))
		fmt.Fprintf(&sb, ",%d,%d,%v,%d,%d,%v,%q", x, y, okv, px, py, okp, f.GlyphName(g))
		switch d := f.GlyphData(g).(type) {
		case font.GlyphOutline:
			fmt.Fprintf(&sb, ",o%d", len(d.Segments))
		case font.GlyphBitmap:
			fmt.Fprintf(&sb, ",b%dx%d/%d", d.Width, d.Height, len(d.Data))
			if d.Outline != nil {
				fmt.Fprintf(&sb, "+o%d", len(d.Outline.Segments))
			}
		case font.GlyphSVG:
			fmt.Fprintf(&sb, ",s%d", len(d.Source))
		}
		sb.WriteString("}")
	}
	he, ok1 := f.FontHExtents()
	ve, ok2 := f.FontVExtents()
	fmt.Fprintf(&sb, " ext=%v,%v,%v,%v upem=%d mono=%v vm=%v bs=%v", he, ok1, ve, ok2, f.Upem(), f.IsMonospace(), f.HasVerticalMetrics(), f.BitmapSizes())
	for m := font.LineMetric(0); m < 6; m++ {
		fmt.Fprintf(&sb, " lm=%v", f.LineMetric(m))
	}
	d := f.Describe()
	fmt.Fprintf(&sb, " desc=%q,%v", d.Family, d.Aspect)
	out.Count("op.metrics_names", 1)
	// pair kerning through the public subtables ('kern' and 'kerx'), whatever the shaper would use
	for _, kx := range []font.Kernx{f.Kern, f.Kerx} {
		for si, st := range kx {
			kp, ok := st.Data.(interface {
				KernPair(left, right font.GID) int16
			})
			if !ok || si >= 8 {
				continue
			}
			var sum int
			pg := append([]font.GID{0, 1, 2, 3, 4, 5, 6, 7, 8, 0xFFFF}, gids[:min(6, len(gids))]...)
			for _, l := range pg {
				for _, rr := range pg {
					sum += int(kp.KernPair(l, rr))
				}
			}
			fmt.Fprintf(&sb, " kp%d=%d", si, sum)
			out.Count("op.kern_pairs", 1)
		}
	}

	// variations and ppem, then a few queries again
	f.SetVariations([]font.Variation{{Tag: ot.MustNewTag("wght"), Value: 900}, {Tag: ot.MustNewTag("wdth"), Value: 50}})
	if bs := f.BitmapSizes(); len(bs) > 0 {
		f.SetPpem(bs[0].XPpem, bs[0].YPpem)
	} else {
		f.SetPpem(16, 16)
	}
	for _, g := range gids[:min(8, len(gids))] {
		ext, ok := f.GlyphExtents(g)
		fmt.Fprintf(&sb, " v%d{%v,%v,%v}", g, ext, ok, f.HorizontalAdvance(g))
		if o, ok := f.GlyphData(g).(font.GlyphOutline); ok {
			fmt.Fprintf(&sb, "o%d", len(o.Segments))
		}
	}
	out.Count("op.variations_ppem", 1)
	// every axis of the font away from its default, whatever the axes are called: normalized
	// coordinates are set directly (as many as the face reports after SetVariations)
	if n := len(f.Coords()); n > 0 {
		coords := make([]font.VarCoord, n)
		for i := range coords {
			coords[i] = font.VarCoord([]int{8192, -8192, 16384, -16384, 4096, 12000}[r.Intn(6)])
		}
		f.SetCoords(coords)
		for _, g := range gids[:min(12, len(gids))] {
			ext, ok := f.GlyphExtents(g)
			fmt.Fprintf(&sb, " c%d{%v,%v,%v,%v}", g, ext, ok, f.HorizontalAdvance(g), f.VerticalAdvance(g))
			if o, ok := f.GlyphData(g).(font.GlyphOutline); ok {
				fmt.Fprintf(&sb, "o%d", len(o.Segments))
			}
		}
		he, ok1 := f.FontHExtents()
		fmt.Fprintf(&sb, " cext=%v,%v lm=%v", he, ok1, f.LineMetric(font.UnderlinePosition))
		out.Count("op.all_axes_coords", 1)
	}

	// shaping with short texts drawn from the face's own cmap
	if onShaping != nil {
		onShaping()
	}
	var sh shaping.HarfbuzzShaper
	texts := [][]rune{[]rune("ab fi"), nil, nil}
	for k := 1; k < 3 && len(runes) > 0; k++ {
		for i := 0; i < 6; i++ {
			texts[k] = append(texts[k], runes[r.Intn(len(runes))])
		}
	}
	// once through the harfbuzz API itself, with a point size set (the AAT tracking table is only
	// consulted then; shaping.HarfbuzzShaper leaves it at zero)
	{
		hf := harfbuzz.NewFont(f)
		hf.Ptem = 11.5
		buf := harfbuzz.NewBuffer()
		buf.AddRunes(texts[0], 0, -1)
		buf.GuessSegmentProperties()
		buf.Shape(hf, nil)
		fmt.Fprintf(&sb, " hb=%d", len(buf.Info))
		out.Count("op.shape", 1)
	}
	for k, t := range texts {
		if len(t) == 0 {
			continue
		}
		dir := []di.Direction{di.DirectionLTR, di.DirectionRTL, di.DirectionTTB}[k%3]
		o := sh.Shape(shaping.Input{Text: t, RunEnd: len(t), Direction: dir, Face: f, Size: fixed.I(16), Script: scriptOf(t), Language: language.NewLanguage("en")})
		fmt.Fprintf(&sb, " shape%d=%d/%d", k, len(o.Glyphs), o.Advance)
		out.Count("op.shape", 1)
	}
	return sb.String()
}

// ------------------------------------------------------------------ shrinking

func (e *fdEngine) Shrink(raw json.RawMessage, class string, test func(json.RawMessage) bool) json.RawMessage {
	var c FDCase
	if json.Unmarshal(raw, &c) != nil {
		return raw
	}
	if c.Family == "guided" {
		// the replay file is the explicit failing execution of the campaign, not the campaign
		sub, ok := guidedFailure[kernel.HashBytes(raw)]
		if !ok {
			e.campaign(raw)
			sub, ok = guidedFailure[kernel.HashBytes(raw)]
		}
		if !ok || !test(sub) {
			return raw
		}
		raw = sub
		if json.Unmarshal(raw, &c) != nil {
			return raw
		}
	}
	try := func(cand FDCase) bool {
		b, err := json.Marshal(cand)
		return err == nil && test(b)
	}
	// drop faults one by one
	c.Bytes = kernel.DDMin(c.Bytes, func(b []ByteFault) bool { cand := c; cand.Bytes = b; return try(cand) }, 30)
	c.IO = kernel.DDMin(c.IO, func(b []faultdisk.ReadFault) bool { cand := c; cand.IO = b; return try(cand) }, 30)
	c.Post = kernel.DDMin(c.Post, func(b []ByteFault) bool { cand := c; cand.Post = b; return try(cand) }, 10)
	if c.Wrap != "" && len(c.Post) == 0 {
		cand := c
		cand.Wrap = ""
		if try(cand) {
			c = cand
		}
	}
	if c.Via != "parsettc" {
		cand := c
		cand.Via = "parsettc"
		if try(cand) {
			c = cand
		}
	}
	// move a truncation point outward (keep as much of the file as possible)
	for i := range c.Bytes {
		if c.Bytes[i].Kind != "trunc" {
			continue
		}
		size := len(corpus.Bytes(c.Font))
		lo, hi := c.Bytes[i].Off, size // invariant: fails at lo
		for hi-lo > 1 {
			mid := lo + (hi-lo)/2
			cand := c
			cand.Bytes = append([]ByteFault(nil), c.Bytes...)
			cand.Bytes[i].Off = mid
			if try(cand) {
				lo = mid
			} else {
				hi = mid
			}
		}
		c.Bytes[i].Off = lo
	}
	b, err := json.Marshal(c)
	if err != nil {
		return raw
	}
	return b
}

// ------------------------------------------------------------------ coverage-guided campaigns

// guidedFailure remembers, per campaign case, the explicit execution that violated an oracle.
var guidedFailure = map[uint64]json.RawMessage{}

// campaign is a greybox search over fault sequences on one font: a population of fault lists
// (starting from the fault-free image) is evolved by adding, perturbing, neighbouring and
// dropping stored-byte faults and occasionally a transient I/O fault; a child joins the
// population when it reaches an instrumented site (yield point or branch) that no earlier
// execution of the campaign reached, or a new order of magnitude of steps or allocation.
// Every choice is drawn from the case's seed and the feedback is a deterministic function of
// the executions, so a campaign replays exactly; a violation is reported as the explicit
// failing execution (font + fault list), which is what gets minimised and stored.
func (e *fdEngine) campaign(raw json.RawMessage) (*kernel.Outcome, error) {
	var c FDCase
	if err := json.Unmarshal(raw, &c); err != nil {
		return nil, err
	}
	out := &kernel.Outcome{}
	out.Count("family.guided", 1)
	img := corpus.Bytes(c.Font)
	_, tables := faultdisk.ParseDirectory(img)
	r := kernel.NewRand(c.GSeed, "guided")
	type member struct {
		bytes []ByteFault
		io    []faultdisk.ReadFault
	}
	pop := []member{{}}
	var seen [1 << 16]uint8
	feats := map[string]bool{}
	kw := []int{1, 3, 5, 4, 2, 0} // trunc flip set16 set32 zero swap
	vals16 := []uint32{0, 1, 2, 0xFFFF, 0x7FFF, 0x8000, 0xFFFE, 0x100, 0x3FFF, 0x4000}
	calls := ioCalls(c.Font)
	var trace uint64
	for step := 0; step <= c.Steps; step++ {
		var child member
		if step > 0 {
			// parent: recent members (which reached something new last) are favoured
			pi := len(pop) - 1 - r.Intn(min(len(pop), 8))
			if r.Chance(0.3) {
				pi = r.Intn(len(pop))
			}
			par := pop[pi]
			child.bytes = append([]ByteFault(nil), par.bytes...)
			child.io = append([]faultdisk.ReadFault(nil), par.io...)
			switch m := r.Intn(10); {
			case m < 4 || len(child.bytes) == 0:
				child.bytes = append(child.bytes, genByteFault(r, kw, img, tables))
			case m < 6:
				// perturb the value or the position of one fault
				f := &child.bytes[r.Intn(len(child.bytes))]
				switch r.Intn(4) {
				case 0:
					f.Val = kernel.Pick(r, vals16)
				case 1:
					f.Val += uint32(kernel.Pick(r, []int{1, 2, 4, 0xFFFF, 0xFFFE}))
					if f.Kind == "set16" {
						f.Val &= 0xFFFF
					}
				case 2:
					f.Off += kernel.Pick(r, []int{-8, -4, -2, -1, 1, 2, 4, 8})
				default:
					f.Val = uint32(r.Intn(len(img) + 2))
					if f.Kind == "set16" {
						f.Val &= 0xFFFF
					}
				}
				if f.Off < 0 {
					f.Off = 0
				}
			case m < 8:
				// a second field of the same structure: consistent multi-field corruption
				f := child.bytes[r.Intn(len(child.bytes))]
				child.bytes = append(child.bytes, ByteFault{Kind: "set16", Off: f.Off + kernel.Pick(r, []int{-8, -6, -4, -2, 2, 4, 6, 8, 10, 12}), Val: kernel.Pick(r, vals16), Aim: f.Aim})
				if n := len(child.bytes); child.bytes[n-1].Off < 0 {
					child.bytes[n-1].Off = 0
				}
			case m < 9:
				if len(child.bytes) >= 2 {
					i := r.Intn(len(child.bytes))
					child.bytes = append(child.bytes[:i], child.bytes[i+1:]...)
				} else {
					child.bytes = append(child.bytes, genByteFault(r, kw, img, tables))
				}
			default:
				child.io = []faultdisk.ReadFault{{Call: r.Intn(calls + 2), Kind: kernel.Pick(r, []string{"eio", "eof", "short"}), N: r.Range(1, 64)}}
			}
			if len(child.bytes) > 6 {
				child.bytes = child.bytes[len(child.bytes)-6:]
			}
		}
		sub := FDCase{Family: "random", Font: c.Font, Bytes: child.bytes, IO: child.io, QSeed: c.QSeed, Via: "parsettc"}
		sraw, err := json.Marshal(sub)
		if err != nil {
			return nil, err
		}
		covReset()
		so, err := e.Execute(sraw)
		if err != nil {
			return nil, err
		}
		out.Count("op.guided_executions", 1)
		for k, v := range so.Counters {
			if strings.HasPrefix(k, "max.") {
				if v > out.Counters[k] {
					out.Counters[k] = v
				}
			} else if k != "family.random" {
				out.Count(k, v)
			}
		}
		out.States = append(out.States, so.States...)
		trace = kernel.SplitMix64(trace ^ so.Trace ^ kernel.HashBytes(sraw))
		if so.Violation != nil {
			guidedFailure[kernel.HashBytes(raw)] = sraw
			out.Violation = so.Violation
			out.Violation.Detail += fmt.Sprintf(" [execution %d of a coverage-guided campaign on %s, %d stored-byte faults]", step, c.Font, len(child.bytes))
			out.Nontrivial = true
			out.Trace = trace
			return out, nil
		}
		fresh := covNew(&seen)
		for _, k := range []string{"ticks", "max.alloc_permille_of_budget"} {
			b := 0
			for v := so.Counters[k]; v > 0; v >>= 2 {
				b++
			}
			if key := fmt.Sprintf("%s:%d", k, b); !feats[key] {
				feats[key] = true
				fresh++
			}
		}
		if fresh > 0 && step > 0 {
			pop = append(pop, child)
			out.Count("guided.sites_first_reached_by_a_faulted_image", int64(fresh))
			if len(child.bytes) >= 2 {
				out.Count("probe.guided_stacked_faults_reached_new_code", 1)
			}
		}
	}
	out.Count("guided.population", int64(len(pop)))
	out.Nontrivial = len(pop) > 1
	out.Trace = trace
	return out, nil
}
