package engines

import (
	"encoding/json"
	"fmt"
	"os"
	"runtime"
	"testing"
	"time"

	"github.com/go-text/typesetting/font"
	"verifsim/corpus"
	"verifsim/faultdisk"
	"verifsim/kernel"
)

func TestProbe(t *testing.T) {
	rp, err := kernel.ReadReplay(os.Getenv("PROBE_FILE"))
	if err != nil {
		t.Fatal(err)
	}
	var c FDCase
	json.Unmarshal(rp.Case, &c)
	img := applyByteFaults(corpus.Bytes(c.Font), c.Bytes)
	var m0, m1 runtime.MemStats
	runtime.ReadMemStats(&m0)
	t0 := time.Now()
	faces, err := font.ParseTTC(faultdisk.NewFile(img, c.IO))
	runtime.ReadMemStats(&m1)
	fmt.Println("load", time.Since(t0), "alloc", m1.TotalAlloc-m0.TotalAlloc, "err", err, "faces", len(faces))
	for _, f := range faces {
		t0 = time.Now()
		runtime.ReadMemStats(&m0)
		d := battery(f, c.QSeed, &kernel.Outcome{Counters: map[string]int64{}}, font.GID(c.Gid))
		runtime.ReadMemStats(&m1)
		fmt.Println("battery", time.Since(t0), "alloc", m1.TotalAlloc-m0.TotalAlloc, len(d))
	}
}
