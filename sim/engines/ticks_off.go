//go:build !instrumented

package engines

// Without instrumentation there is no tick counter: step budgets are inert (used only by
// tools that replay cases against plain builds, e.g. to attribute a repair to a commit).
func tickCount() uint64 { return 0 }

func tickArm(budget uint64, onTrip func()) {}

func tickDisarm() {}

const ticksAvailable = false

func covReset() {}

func covNew(seen *[1 << 16]uint8) int { return 0 }

func profStart() {}

func profStop() {}

func profDominant() (string, uint64) { return "", 0 }

var (
	profSecond  string
	profSecondN uint64
)
