//go:build instrumented

package engines

import vs "github.com/go-text/typesetting/verifsim"

// The tick counter of the instrumented copy of the library (deterministic step budget).
func tickCount() uint64 { return vs.N }

func tickArm(budget uint64, onTrip func()) {
	vs.Next = vs.N + budget
	vs.Slow = onTrip
}

func tickDisarm() { vs.Next = ^uint64(0) }

const ticksAvailable = true

// coverage feedback of the instrumented copy (sites executed since the last reset)
func covReset() { vs.Cov = [1 << 16]uint8{} }

// covNew adds the sites executed since the last reset to seen and returns how many were new.
func covNew(seen *[1 << 16]uint8) int {
	n := 0
	for i, b := range vs.Cov {
		if b != 0 && seen[i] == 0 {
			seen[i] = 1
			n++
		}
	}
	return n
}
