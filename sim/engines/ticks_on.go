//go:build instrumented

package engines

import vs "github.com/go-text/typesetting/verifsim"

// The tick counter of the instrumented copy of the library (deterministic step budget).
func tickCount() uint64 { return vs.N }

func tickArm(budget uint64, onTrip func()) {
	vs.Next = vs.N + budget
	vs.Slow = onTrip
}

func tickDisarm() { vs.Next = ^uint64(0) }

const ticksAvailable = true
