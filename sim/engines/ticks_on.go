//go:build instrumented

package engines

import vs "github.com/go-text/typesetting/verifsim"

// The tick counter of the instrumented copy of the library (deterministic step budget).
func tickCount() uint64 { return vs.N }

func tickArm(budget uint64, onTrip func()) {
	vs.Next = vs.N + budget
	vs.Slow = onTrip
}

func tickDisarm() { vs.Next = ^uint64(0) }

const ticksAvailable = true

// coverage feedback of the instrumented copy (sites executed since the last reset)
func covReset() { vs.Cov = [1 << 16]uint8{} }

// covNew adds the sites executed since the last reset to seen and returns how many were new.
func covNew(seen *[1 << 16]uint8) int {
	n := 0
	for i, b := range vs.Cov {
		if b != 0 && seen[i] == 0 {
			seen[i] = 1
			n++
		}
	}
	return n
}

// step profile (see vs.Prof): which function consumed most yield points since profStart
func profStart() {
	vs.Hits = [1 << 16]uint32{}
	vs.Prof = true
}

func profStop() { vs.Prof = false }

func profDominant() (string, uint64) {
	per := map[string]uint64{}
	for i, h := range vs.Hits {
		if h != 0 && i < len(vs.SiteFunc) {
			per[vs.SiteFunc[i]] += uint64(h)
		}
	}
	best, n := "", uint64(0)
	for f, c := range per {
		if c > n || (c == n && f < best) {
			best, n = f, c
		}
	}
	profSecond, profSecondN = "", 0
	for f, c := range per {
		if f != best && (c > profSecondN || (c == profSecondN && f < profSecond)) {
			profSecond, profSecondN = f, c
		}
	}
	return best, n
}

// runner-up of the last profDominant call (for the detail text)
var (
	profSecond  string
	profSecondN uint64
)
