//go:build instrumented

package engines

// Engine `schedsim` (property C17): N tasks (real goroutines) share parsed
// *font.Font values and run seeded programs over their own faces, shapers,
// buffers, segmenters, wrappers and font maps, under the cooperative scheduler
// of package sched in a -race build. Oracles: no race report (the process runs
// with GORACE=halt_on_error=1: a report kills the worker and is attributed by
// the orchestrator), every task's per-operation digests equal those of its solo
// run on separately parsed fonts, no panic.
//
// Everything executed inside a task is synchronisation-free harness code: no
// fmt, no locks, no channels, hand-rolled digests, programs compiled to plain
// data before the tasks are spawned.

import (
	"bytes"
	"encoding/json"
	"fmt"
	"math"
	"os"
	"sort"
	"strings"
	"unicode"

	"github.com/go-text/typesetting/di"
	"github.com/go-text/typesetting/font"
	ot "github.com/go-text/typesetting/font/opentype"
	"github.com/go-text/typesetting/fontscan"
	"github.com/go-text/typesetting/harfbuzz"
	"github.com/go-text/typesetting/language"
	"github.com/go-text/typesetting/shaping"
	"golang.org/x/image/math/fixed"

	"verifsim/corpus"
	"verifsim/kernel"
	"verifsim/sched"
)

func init() { register("schedsim", func() kernel.Engine { return &scEngine{} }) }

type scEngine struct{}

func (*scEngine) Name() string     { return "schedsim" }
func (*scEngine) Property() string { return "C17" }

type FontRef struct {
	File  string `json:"file"`
	Index int    `json:"index"`
}

// SOp is one operation of a task program.
//
//	face    create the task's own face on shared font F
//	vars    SetVariations / SetPpem on the own face
//	glyphs  extents, advances, outlines/bitmaps, names of Gids through the own face
//	fontq   read-only methods called directly on the shared *font.Font
//	hbshape harfbuzz.NewFont + Buffer.Shape (own buffer)
//	shape   HarfbuzzShaper.Shape (own shaper)
//	split   shaping.Segmenter.Split over the own faces
//	wrap    shape + LineWrapper.WrapParagraph
//	fmadd / fmresolve   private fontscan.FontMap: AddFace, SetQuery+SetScript+ResolveFace
//	fmsys   private FontMap: UseSystemFonts (global index behind sync.Once; switching suspended while it
//	        runs, see sched.Hold) then SetQuery+ResolveFace over lazily loaded system fonts
type SOp struct {
	K     string       `json:"k"`
	F     int          `json:"f"`
	Text  string       `json:"text,omitempty"`
	Gids  []uint32     `json:"gids,omitempty"`
	Vars  []VarSetting `json:"vars,omitempty"`
	Dir   uint8        `json:"dir,omitempty"`
	Size  int          `json:"size,omitempty"`
	N     int          `json:"n,omitempty"`
	Feats []FeatSpec   `json:"feats,omitempty"`
	Lang  string       `json:"lang,omitempty"`
}

type SCCase struct {
	Canary bool       `json:"canary,omitempty"` // the built-in self-test: two tasks share one *font.Face
	Gap    int        `json:"gap,omitempty"`    // canary: library work between the write and the park point
	Fonts  []FontRef  `json:"fonts"`
	Tasks  [][]SOp    `json:"tasks"`
	Plan   sched.Plan `json:"plan"`
	// ParkFrac positions a sweep plan's park point as a fraction (per 10000) of task A's solo tick count.
	ParkFrac int `json:"park_frac,omitempty"`
	// SysFonts: corpus files installed as "system fonts" in a scratch directory (op fmsys): the
	// process-global font index behind fontscan's sync.Once is then built during the concurrent phase
	SysFonts []string `json:"sys_fonts,omitempty"`
}

var scSysFonts = []string{"ot:common/Roboto-BoldItalic.ttf", "ot:common/NotoSansArabic.ttf", "ot:common/Lmmono-italic.otf", "ot:toys/Var1.ttf",
	"ot:common/DejaVuSansMono.ttf", "ot:common/Go-Mono-Bold-Italic.ttf", "ot:toys/CFF2-VF.otf", "ot:common/Raleway-v4020-Regular.otf"}

var scFonts = []string{
	"ot:common/Roboto-BoldItalic.ttf", "ot:common/Raleway-v4020-Regular.otf", "ot:common/Commissioner-VF.ttf", "ot:toys/CFF2-VF.otf",
	"ot:common/NotoSansArabic.ttf", "ot:toys/Sbix1.ttf", "ot:toys/CBLC1.ttf", "ot:morx/One.ttf", "ot:morx/Thirtytwo.ttf", "ot:toys/Kern2.ttf",
	"ot:common/Lmmono-italic.otf", "ot:common/Mada-VF.ttf", "ot:toys/Var1.ttf", "ot:toys/KacstQurn.ttf", "ot:common/Selawik-VF.ttf",
	"ot:toys/chromacheck-svg.ttf", "ot:bitmap/IBM3161-bitmap.otb", "ot:common/SourceSans-VF.ttf", "ot:toys/Trak.ttf", "ot:toys/Feat.ttf",
	"ot:common/DejaVuSans.ttf", "ot:common/NotoSansMongolian-Regular.ttf", "synth:svg-gzip.ttf", "synth:gsub-long-context.ttf",
	"hb:harfbuzz_reference/text-rendering-tests/fonts/TestCMAPMacTurkish.ttf", // cmap format 0 (a Go map behind Cmap.Iter)
}

// sweepBlock: runs are grouped in blocks of this size. In a sweep block all runs share
// fonts, programs and the parked task and differ only in the park point, which walks task
// A's whole program in equal steps; the other blocks draw everything per run.
const sweepBlock = 16

func (e *scEngine) Generate(seed uint64, tier string, run int) (json.RawMessage, error) {
	block := run / sweepBlock
	sweep := block%2 == 0
	if sweep {
		seed = kernel.RunSeed(kernel.VerifSeed, "C17-block", block)
	}
	rk := kernel.NewRand(seed, "knobs")
	rg := kernel.NewRand(seed, "gen")
	rs := kernel.NewRand(seed, "sched")
	var c SCCase
	nFonts := rk.Range(1, 3)
	var models []*font.Font
	for i := 0; i < nFonts; i++ {
		file := kernel.Pick(rk, scFonts)
		fonts := corpus.Fonts(file)
		if len(fonts) == 0 {
			i--
			continue
		}
		idx := rk.Intn(len(fonts))
		c.Fonts = append(c.Fonts, FontRef{file, idx})
		models = append(models, fonts[idx])
	}
	nTasks := rk.Range(2, 6)
	if tier == "thorough" && rk.Chance(0.05) {
		nTasks = rk.Range(16, 64)
	}
	kinds := []string{"glyphs", "fontq", "hbshape", "shape", "split", "wrap", "fmadd", "fmresolve", "vars", "face", "fmsys"}
	weights := make([]int, len(kinds))
	for i := range weights {
		if rk.Chance(0.7) {
			weights[i] = rk.Range(1, 5)
		}
	}
	weights[rk.Intn(4)] += 3
	// system fonts in a quarter of the runs only (each such run scans a scratch directory twice)
	weights[len(kinds)-1] = 0
	var sysRunes []rune
	if rk.Chance(0.25) {
		weights[len(kinds)-1] = rk.Range(2, 6)
		for _, i := range rk.Perm(len(scSysFonts))[:rk.Range(2, 4)] {
			c.SysFonts = append(c.SysFonts, scSysFonts[i])
			if fs := corpus.Fonts(scSysFonts[i]); len(fs) > 0 {
				sysRunes = append(sysRunes, cmapSample(fs[0], 12)...)
			}
		}
	}
	opsPer := rk.Range(2, 10)
	if nTasks > 8 {
		opsPer = rk.Range(1, 3)
	}
	for t := 0; t < nTasks; t++ {
		var prog []SOp
		sameProg := t > 0 && rk.Chance(0.3) // identical programs maximise overlapping first uses
		if sameProg {
			prog = append(prog, c.Tasks[t-1]...)
		}
		for len(prog) < opsPer {
			f := rg.Intn(nFonts)
			runes := cmapRunes(models[f])
			op := SOp{K: kinds[rg.Weighted(weights)], F: f}
			switch op.K {
			case "glyphs":
				for i := rg.Range(1, 6); i > 0; i-- {
					if len(runes) > 0 && rg.Chance(0.8) {
						g, _ := models[f].NominalGlyph(kernel.Pick(rg, runes))
						op.Gids = append(op.Gids, uint32(g))
					} else {
						op.Gids = append(op.Gids, uint32(rg.Intn(3000)))
					}
				}
			case "fontq", "hbshape", "shape", "split", "wrap", "fmresolve":
				op.Text = string(genText(rg, runes, 24))
				op.Dir = kernel.Pick(rg, []uint8{0, 0, 1, 2})
				op.Size = kernel.Pick(rg, []int{12 * 64, 16 * 64, 20 * 64})
				op.N = rg.Range(20, 400)
				op.Feats = genFeats(rg, false, 0)
				op.Lang = kernel.Pick(rg, someLanguages)
			case "vars":
				op.Vars = genVars(rg)
				op.N = rg.Intn(3)
			case "fmsys":
				for i := rg.Range(2, 10); i > 0 && len(sysRunes) > 0; i-- {
					op.Text += string(kernel.Pick(rg, sysRunes))
				}
				op.Lang = kernel.Pick(rg, []string{"roboto", "noto sans arabic", "serif", "monospace", "dejavu sans mono", "latin modern mono", "unknown family"})
			}
			prog = append(prog, op)
		}
		c.Tasks = append(c.Tasks, prog)
	}
	// schedule
	switch {
	case sweep:
		c.Plan.Kind = "sweep"
		c.Plan.A = rs.Intn(nTasks)
		c.ParkFrac = (run%sweepBlock)*10000/sweepBlock + 10000/(2*sweepBlock)
	case rs.Chance(0.85):
		c.Plan.Kind = "random"
		n := rs.Range(1, 12)
		var at uint64
		cluster := rs.Chance(0.4)
		for i := 0; i < n; i++ {
			if cluster {
				at += uint64(rs.Range(1, 3000))
			} else {
				at += uint64(rs.Range(1, 400000))
			}
			c.Plan.Switches = append(c.Plan.Switches, sched.Switch{At: at, To: rs.Intn(nTasks)})
		}
	default:
		c.Plan.Kind = "sequential"
	}
	c.Plan.Order = rs.Perm(nTasks)
	if len(c.SysFonts) > 0 && !sweep {
		c.Plan.SwitchAfterHold = rs.Chance(0.6)
	}
	return json.Marshal(c)
}

// ------------------------------------------------------------------ task programs (sync-free)

type cop struct {
	k      int
	f      int
	text   []rune
	gids   []font.GID
	vars   []font.Variation
	dir    di.Direction
	size   fixed.Int26_6
	n      int
	feats  []shaping.FontFeature
	hfeats []harfbuzz.Feature
	lang   language.Language
	script language.Script
	fam    string
}

const (
	kFace = iota
	kVars
	kGlyphs
	kFontq
	kHbshape
	kShape
	kSplit
	kWrap
	kFmadd
	kFmresolve
	kFmsys
)

var kindIDs = map[string]int{"face": kFace, "vars": kVars, "glyphs": kGlyphs, "fontq": kFontq, "hbshape": kHbshape, "shape": kShape,
	"split": kSplit, "wrap": kWrap, "fmadd": kFmadd, "fmresolve": kFmresolve, "fmsys": kFmsys}

func compile(prog []SOp, nFonts int) []cop {
	out := make([]cop, len(prog))
	for i, op := range prog {
		c := cop{k: kindIDs[op.K], f: op.F % nFonts, text: []rune(op.Text), dir: di.Direction(op.Dir), size: fixed.Int26_6(op.Size), n: op.N,
			lang: language.NewLanguage(op.Lang), fam: "family" + string(rune('a'+op.F%nFonts))}
		for _, g := range op.Gids {
			c.gids = append(c.gids, font.GID(g))
		}
		c.vars = toVariations(op.Vars)
		c.feats = toFontFeatures(op.Feats)
		for _, f := range op.Feats {
			c.hfeats = append(c.hfeats, harfbuzz.Feature{Tag: ot.MustNewTag(pad4(f.Tag)), Value: f.Val, Start: harfbuzz.FeatureGlobalStart, End: harfbuzz.FeatureGlobalEnd})
		}
		c.script = scriptNoLib(c.text)
		if c.k == kFmsys {
			c.fam, c.lang = op.Lang, ""
		}
		out[i] = c
	}
	return out
}

type taskState struct {
	fonts  []*font.Font
	faces  []*font.Face
	shaper shaping.HarfbuzzShaper
	buf    *harfbuzz.Buffer
	seg    shaping.Segmenter
	wrap   shaping.LineWrapper
	fm     *fontscan.FontMap
	fmSeq  int
	sys    bool // UseSystemFonts done on fm
}

// sysCacheDir: cache directory handed to UseSystemFonts (set by Execute before any task starts)
var sysCacheDir string

func baseName(p string) string {
	for i := len(p) - 1; i >= 0; i-- {
		if p[i] == '/' {
			return p[i+1:]
		}
	}
	return p
}

func mix(h, x uint64) uint64 { return kernel.SplitMix64(h ^ x) }

func mixStr(h uint64, s string) uint64 {
	for i := 0; i < len(s); i++ {
		h = h*1099511628211 ^ uint64(s[i])
	}
	return mix(h, uint64(len(s)))
}

func (t *taskState) face(i int) *font.Face {
	if t.faces[i] == nil {
		t.faces[i] = font.NewFace(t.fonts[i])
	}
	return t.faces[i]
}

func (t *taskState) faceIndex(f *font.Face) uint64 {
	for i, x := range t.faces {
		if x == f && f != nil {
			return uint64(i + 1)
		}
	}
	if f == nil {
		return 0
	}
	return 999
}

func digestOut(h uint64, o *shaping.Output) uint64 {
	h = mix(h, uint64(o.Advance)^uint64(len(o.Glyphs))<<32)
	for i := range o.Glyphs {
		g := &o.Glyphs[i]
		h = mix(h, uint64(g.GlyphID)^uint64(uint32(g.XAdvance))<<32)
		h = mix(h, uint64(uint32(g.YAdvance))^uint64(uint32(g.XOffset))<<32)
		h = mix(h, uint64(uint32(g.YOffset))^uint64(g.ClusterIndex)<<32)
		h = mix(h, uint64(uint32(g.Width))^uint64(uint32(g.Height))<<32)
		h = mix(h, uint64(uint32(g.XBearing))^uint64(uint32(g.YBearing))<<32)
	}
	h = mix(h, uint64(uint32(o.LineBounds.Ascent))^uint64(uint32(o.LineBounds.Descent))<<32)
	return h
}

// exec runs one operation and returns its digest. No fmt, no locks.
func (t *taskState) exec(c *cop) (h uint64) {
	h = uint64(c.k) + 1
	switch c.k {
	case kFace:
		t.faces[c.f] = font.NewFace(t.fonts[c.f])
		h = mix(h, uint64(t.faces[c.f].Upem()))
	case kVars:
		f := t.face(c.f)
		if c.n == 2 {
			f.SetPpem(uint16(16+c.n), 24)
		} else {
			f.SetVariations(c.vars)
		}
		for _, co := range f.Coords() {
			h = mix(h, uint64(uint16(co)))
		}
	case kGlyphs:
		f := t.face(c.f)
		for _, g := range c.gids {
			e, ok := f.GlyphExtents(g)
			h = mix(h, uint64(math.Float32bits(e.XBearing))^uint64(math.Float32bits(e.Width))<<32)
			h = mix(h, uint64(math.Float32bits(e.YBearing))^uint64(math.Float32bits(e.Height))<<32)
			if ok {
				h = mix(h, 1)
			}
			h = mix(h, uint64(math.Float32bits(f.HorizontalAdvance(g)))^uint64(math.Float32bits(f.VerticalAdvance(g)))<<32)
			h = mixStr(h, f.GlyphName(g))
			switch d := f.GlyphData(g).(type) {
			case font.GlyphOutline:
				for _, s := range d.Segments {
					h = mix(h, uint64(s.Op))
					for _, p := range s.Args {
						h = mix(h, uint64(math.Float32bits(p.X))^uint64(math.Float32bits(p.Y))<<32)
					}
				}
			case font.GlyphBitmap:
				h = mix(h, uint64(d.Width)<<32^uint64(d.Height)^uint64(len(d.Data))<<16)
				for _, b := range d.Data {
					h = h*31 + uint64(b)
				}
			case font.GlyphSVG:
				h = mix(h, uint64(len(d.Source)))
			}
		}
	case kFontq:
		ft := t.fonts[c.f]
		for _, r := range c.text {
			g, ok := ft.NominalGlyph(r)
			h = mix(h, uint64(g))
			if ok {
				h++
			}
			g2, _ := ft.VariationGlyph(r, 0xFE0F)
			h = mix(h, uint64(g2))
		}
		if ft.Cmap != nil {
			var sum uint64 // order-independent: some cmaps iterate over a Go map
			it := ft.Cmap.Iter()
			for n := 0; it.Next() && n < 300; n++ {
				r, g := it.Char()
				sum += uint64(r)*31 + uint64(g)
			}
			h = mix(h, sum)
		}
		d := ft.Describe()
		h = mixStr(h, d.Family)
		h = mix(h, uint64(d.Aspect.Style)^uint64(math.Float32bits(float32(d.Aspect.Weight)))<<8)
		if ft.IsMonospace() {
			h++
		}
		h = mix(h, uint64(len(ft.BitmapSizes()))^uint64(ft.Upem())<<16)
		f := t.face(c.f)
		e, _ := f.FontHExtents()
		h = mix(h, uint64(math.Float32bits(e.Ascender))^uint64(math.Float32bits(e.Descender))<<32)
		for m := font.LineMetric(0); m < 6; m++ {
			h = mix(h, uint64(math.Float32bits(f.LineMetric(m))))
		}
		x, y, ok := ft.GetGlyphContourPoint(font.GID(c.n%50), 1)
		h = mix(h, uint64(uint32(x))^uint64(uint32(y))<<32)
		if ok {
			h++
		}
	case kHbshape:
		if t.buf == nil {
			t.buf = harfbuzz.NewBuffer()
		} else {
			t.buf.Clear()
		}
		b := t.buf
		b.Props.Direction = harfbuzz.LeftToRight
		if c.dir == di.DirectionRTL {
			b.Props.Direction = harfbuzz.RightToLeft
		}
		b.Props.Script = c.script
		b.Props.Language = c.lang
		b.AddRunes(c.text, 0, len(c.text))
		hf := harfbuzz.NewFont(t.face(c.f))
		b.Shape(hf, c.hfeats)
		for i := range b.Info {
			h = mix(h, uint64(b.Info[i].Glyph)^uint64(b.Info[i].Cluster)<<32)
			h = mix(h, uint64(uint32(b.Pos[i].XAdvance))^uint64(uint32(b.Pos[i].XOffset))<<32)
			h = mix(h, uint64(uint32(b.Pos[i].YAdvance))^uint64(uint32(b.Pos[i].YOffset))<<32)
		}
	case kShape:
		o := t.shaper.Shape(shaping.Input{Text: c.text, RunEnd: len(c.text), Direction: c.dir, Face: t.face(c.f), FontFeatures: c.feats,
			Size: c.size, Script: c.script, Language: c.lang})
		h = digestOut(h, &o)
	case kSplit, kWrap:
		var fs sliceFontmap
		fs = append(fs, t.face(c.f))
		for i := range t.fonts {
			if i != c.f {
				fs = append(fs, t.face(i))
			}
		}
		ins := t.seg.Split(shaping.Input{Text: c.text, RunEnd: len(c.text), Direction: c.dir, Size: c.size, Language: c.lang}, fs)
		for _, in := range ins {
			h = mix(h, uint64(in.RunStart)^uint64(in.RunEnd)<<20^uint64(in.Direction)<<40^uint64(in.Script)<<8)
			h = mix(h, t.faceIndex(in.Face))
			h = mixStr(h, string(in.Language))
		}
		if c.k == kWrap {
			var runs []shaping.Output
			for _, in := range ins {
				if in.Face != nil {
					runs = append(runs, t.shaper.Shape(in))
				}
			}
			lines, tr := t.wrap.WrapParagraph(shaping.WrapConfig{Direction: c.dir & 1}, c.n, c.text, shaping.NewSliceIterator(runs))
			h = mix(h, uint64(tr)^uint64(len(lines))<<32)
			for _, l := range lines {
				for i := range l {
					h = digestOut(h, &l[i])
					h = mix(h, uint64(l[i].VisualIndex)^uint64(l[i].Runes.Offset)<<16^uint64(l[i].Runes.Count)<<40)
				}
			}
		}
	case kFmsys:
		if t.fm == nil {
			t.fm = fontscan.NewFontMap(nopLogger{})
		}
		if !t.sys {
			t.sys = true
			// the first caller builds the process-global index inside sync.Once: it must not be
			// parked while the others would block on the Once
			sched.Hold()
			err := t.fm.UseSystemFonts(sysCacheDir)
			sched.Release()
			if err != nil {
				h = mix(h, 0xE44)
			}
		}
		t.fm.SetQuery(fontscan.Query{Families: []string{c.fam}})
		for _, r := range c.text {
			f := t.fm.ResolveFace(r)
			if f == nil {
				h = mix(h, 0)
				continue
			}
			loc := t.fm.FontLocation(f.Font)
			h = mixStr(h, baseName(loc.File))
			h = mix(h, uint64(loc.Index)^uint64(loc.Instance)<<16)
			g, _ := f.NominalGlyph(r)
			h = mix(h, uint64(g))
		}
	case kFmadd, kFmresolve:
		if t.fm == nil {
			t.fm = fontscan.NewFontMap(nopLogger{})
		}
		if c.k == kFmadd || t.fmSeq == 0 {
			t.fmSeq++
			t.fm.AddFace(t.face(c.f), fontscan.Location{File: c.fam, Index: uint16(t.fmSeq)}, font.Description{Family: c.fam, Aspect: font.Aspect{Style: font.StyleNormal, Weight: 400, Stretch: 1}})
		}
		if c.k == kFmresolve {
			t.fm.SetQuery(fontscan.Query{Families: []string{c.fam, "serif"}})
			t.fm.SetScript(c.script)
			for _, r := range c.text {
				h = mix(h, t.faceIndex(t.fm.ResolveFace(r)))
			}
		}
	}
	return h
}

type taskResult struct {
	digests  []uint64
	panicked []bool
	panicVal []interface{}
}

func runProgram(t *taskState, prog []cop, res *taskResult) {
	for i := range prog {
		func() {
			defer func() {
				if r := recover(); r != nil {
					res.panicked[i] = true
					res.panicVal[i] = r
				}
			}()
			res.digests[i] = t.exec(&prog[i])
		}()
	}
}

func parseFonts(refs []FontRef) ([]*font.Font, error) {
	var out []*font.Font
	for _, r := range refs {
		faces, err := font.ParseTTC(bytes.NewReader(corpus.Bytes(r.File)))
		if err != nil || r.Index >= len(faces) {
			return nil, fmt.Errorf("corpus font %s#%d not loadable", r.File, r.Index)
		}
		out = append(out, faces[r.Index].Font)
	}
	return out, nil
}

func newResult(n int) *taskResult {
	return &taskResult{digests: make([]uint64, n), panicked: make([]bool, n), panicVal: make([]interface{}, n)}
}

// readResults copies the results written by the tasks. The tasks never synchronise with
// the coordinator (that is the point), so this read is hidden from the race detector.
//
//go:norace
func readResults(rs []*taskResult) []taskResult {
	out := make([]taskResult, len(rs))
	for i, r := range rs {
		n := len(r.digests)
		t := taskResult{make([]uint64, n), make([]bool, n), make([]interface{}, n)}
		// element by element: the runtime's slice copy helpers are race-instrumented
		// even when called from a norace function
		for j := 0; j < n; j++ {
			t.digests[j] = r.digests[j]
			t.panicked[j] = r.panicked[j]
			t.panicVal[j] = r.panicVal[j]
		}
		out[i] = t
	}
	return out
}

func (e *scEngine) Execute(raw json.RawMessage) (*kernel.Outcome, error) {
	var c SCCase
	if err := json.Unmarshal(raw, &c); err != nil {
		return nil, err
	}
	out := &kernel.Outcome{}
	if c.Canary {
		return runCanary(&c, out)
	}
	if len(c.Tasks) == 0 || len(c.Fonts) == 0 || len(c.Tasks) > sched.MaxTasks {
		return out, nil
	}
	progs := make([][]cop, len(c.Tasks))
	for i, p := range c.Tasks {
		progs[i] = compile(p, len(c.Fonts))
	}
	if len(c.SysFonts) > 0 {
		cleanup, err := installSysFonts(c.SysFonts)
		if err != nil {
			return nil, err
		}
		defer cleanup()
	}
	// solo reference runs on separately parsed fonts (so that no hidden first-use memo of the
	// shared fonts is populated, under a happens-before edge, before the concurrent phase)
	refFonts, err := parseFonts(c.Fonts)
	if err != nil {
		return nil, err
	}
	refs := make([]*taskResult, len(progs))
	soloTicks := make([]uint64, len(progs))
	solo := func() {
		for i, p := range progs {
			refs[i] = newResult(len(p))
			before := sched.Ticks()
			runProgram(&taskState{fonts: refFonts, faces: make([]*font.Face, len(refFonts))}, p, refs[i])
			soloTicks[i] = sched.Ticks() - before
		}
	}
	resetSys := func() {
		if len(c.SysFonts) > 0 {
			// each phase builds the global index from scratch
			fontscan.VerifResetSystemFonts()
			os.RemoveAll(sysCacheDir)
			os.MkdirAll(sysCacheDir, 0o755)
		}
	}
	// Sweep plans need task A's solo tick count to place the park point, so their reference runs
	// come first. Every other plan runs the concurrent phase FIRST: package-level state that the
	// library fills lazily on first use (which no per-run reset can know about) is then still
	// untouched by this run when the tasks meet it, instead of having been filled, race-free, by
	// the coordinator's reference runs.
	soloFirst := c.Plan.Kind == "sweep"
	if soloFirst {
		solo()
		resetSys()
	}
	shared, err := parseFonts(c.Fonts)
	if err != nil {
		return nil, err
	}
	results := make([]*taskResult, len(progs))
	tasks := make([]func(), len(progs))
	for i := range progs {
		i := i
		results[i] = newResult(len(progs[i]))
		st := &taskState{fonts: shared, faces: make([]*font.Face, len(shared))}
		tasks[i] = func() { runProgram(st, progs[i], results[i]) }
	}
	plan := c.Plan
	if plan.Kind == "sweep" {
		if plan.A < 0 || plan.A >= len(progs) {
			plan.A = 0
		}
		plan.ParkAt = soloTicks[plan.A] * uint64(c.ParkFrac) / 10000
	}
	if len(plan.Order) != len(progs) {
		plan.Order = nil
	}
	sched.Run(tasks, plan)
	got := readResults(results)
	concTicks := sched.Ticks()
	if !soloFirst {
		resetSys()
		solo()
	}

	// evidence
	out.Count("op.simulation", 1)
	out.Count("tasks", int64(len(progs)))
	out.Count("ticks", int64(concTicks))
	out.Count("plan."+plan.Kind, 1)
	switchesInside := 0
	trace := uint64(len(progs))
	for i := 0; i < sched.NLog; i++ {
		l := sched.Log[i]
		trace = mix(trace, uint64(l.From+2)^uint64(l.To+2)<<8^l.At<<16)
		if l.From >= 0 && l.To >= 0 {
			switchesInside++
		}
	}
	out.Count("probe.switches", int64(sched.NLog))
	if switchesInside > 0 {
		out.Count("probe.switch_landed_inside_library_call", int64(switchesInside))
		out.Nontrivial = true
		// what this simulator injects are scheduling decisions: preemptions at yield points
		out.Count("fault.preemption_inside_library_call", int64(switchesInside))
		if plan.Kind == "sweep" {
			out.Count("fault.task_parked_while_all_others_run", 1)
		}
		if plan.SwitchAfterHold {
			out.Count("fault.preemption_right_after_once_protected_call", 1)
		}
	}
	for i, p := range c.Tasks {
		for j, op := range p {
			out.Count("op."+op.K, 1)
			trace = mix(trace, got[i].digests[j])
			for i2 := i + 1; i2 < len(c.Tasks); i2++ {
				for _, op2 := range c.Tasks[i2] {
					a, b := op.K, op2.K
					if a > b {
						a, b = b, a
					}
					out.States = append(out.States, "pair:"+a+"+"+b)
				}
			}
		}
	}
	sort.Strings(out.States)
	out.States = uniq(out.States)
	out.States = append(out.States, fmt.Sprintf("plan:%s,tasks=%s", plan.Kind, bucket(len(progs))))
	if plan.Kind == "sweep" {
		out.Count("sweep_park_points", 1)
		// how much of task A's program lies within the detector's window of this park point
		share := soloTicks[plan.A] / sweepBlock
		w := windowTicks()
		if w > share {
			w = share
		}
		out.Count("sweep_ticks_per_park_point", int64(share))
		out.Count("sweep_ticks_within_detector_window", int64(w))
	}
	out.Trace = trace
	// oracle 3: no panic that the solo run does not share; oracle 2: same results as running alone
	for i := range progs {
		for j := range progs[i] {
			ref := refs[i]
			switch {
			case got[i].panicked[j] && !ref.panicked[j]:
				out.Violation = &kernel.Violation{Oracle: "solo-equivalence", Site: "panic:" + c.Tasks[i][j].K,
					Detail: fmt.Sprintf("task %d op %d (%s) panicked under the schedule (%v) but not when running alone", i, j, c.Tasks[i][j].K, got[i].panicVal[j])}
				return out, nil
			case !got[i].panicked[j] && ref.panicked[j]:
				out.Count("solo_only_panic", 1)
			case got[i].panicked[j]:
				out.Count("shared_panic", 1)
			case got[i].digests[j] != ref.digests[j]:
				out.Violation = &kernel.Violation{Oracle: "solo-equivalence", Site: "result:" + c.Tasks[i][j].K,
					Detail: fmt.Sprintf("task %d op %d (%s on font %d) returned a different result under the schedule than when running alone (digest %x vs %x)", i, j, c.Tasks[i][j].K, c.Tasks[i][j].F, got[i].digests[j], ref.digests[j])}
				return out, nil
			}
			out.Count("check.solo_equivalence", 1)
		}
	}
	return out, nil
}

// windowTicks is the race detector's history window in ticks, calibrated by the
// orchestrator with the canary at the start of every check (VERIF_WINDOW_TICKS).
func windowTicks() uint64 {
	var w uint64
	for _, ch := range os.Getenv("VERIF_WINDOW_TICKS") {
		if ch < '0' || ch > '9' {
			return 0
		}
		w = w*10 + uint64(ch-'0')
	}
	return w
}

func uniq(s []string) []string {
	out := s[:0]
	for i, x := range s {
		if i == 0 || x != s[i-1] {
			out = append(out, x)
		}
	}
	return out
}

// runCanary: two tasks share one *font.Face, which the documentation declares unsafe.
// Task A fills the face's extents cache, then does Gap shaping calls of unrelated
// library work and is parked; task B reads the same cache cell. The race detector must
// report it (the process then exits with the race exit code); if this returns normally
// the detector was blind — because the baton became a happens-before edge, or because
// Gap exceeded the detector's history window (which is how the window is calibrated).
func runCanary(c *SCCase, out *kernel.Outcome) (*kernel.Outcome, error) {
	fonts, err := parseFonts([]FontRef{{"ot:common/Roboto-BoldItalic.ttf", 0}})
	if err != nil {
		return nil, err
	}
	sharedFace := font.NewFace(fonts[0])
	text := []rune("canary text for unrelated work")
	res := new([2]uint64)
	tasks := []func(){
		func() {
			e, _ := sharedFace.GlyphExtents(10)
			r := uint64(math.Float32bits(e.Width))
			own := font.NewFace(fonts[0])
			var sh shaping.HarfbuzzShaper
			for i := 0; i < c.Gap; i++ {
				o := sh.Shape(shaping.Input{Text: text, RunEnd: len(text), Face: own, Size: 16 * 64, Script: language.Latin, Language: "en"})
				r += uint64(len(o.Glyphs))
			}
			res[0] = r
		},
		func() {
			e, _ := sharedFace.GlyphExtents(10)
			res[1] = uint64(math.Float32bits(e.Width))
		},
	}
	// A sequential plan: a finished goroutine's history stays available to the detector
	// exactly like a parked one's, as long as it is not evicted by its own later events.
	sched.Run(tasks, sched.Plan{Kind: "sequential", Order: []int{0, 1}})
	out.Count("canary_completed_without_report", 1)
	out.Count("ticks", int64(sched.Ticks()))
	out.Trace = readPair(res)
	return out, nil
}

//go:norace
func readPair(r *[2]uint64) uint64 { return r[0] ^ r[1] }

func (e *scEngine) Shrink(raw json.RawMessage, class string, test func(json.RawMessage) bool) json.RawMessage {
	var c SCCase
	if json.Unmarshal(raw, &c) != nil || c.Canary {
		return raw
	}
	try := func(cand SCCase) bool {
		b, err := json.Marshal(cand)
		return err == nil && test(b)
	}
	// drop tasks (keeping at least two), then operations per task, then switch points
	for i := len(c.Tasks) - 1; i >= 0 && len(c.Tasks) > 2; i-- {
		cand := c
		cand.Tasks = append(append([][]SOp(nil), c.Tasks[:i]...), c.Tasks[i+1:]...)
		cand.Plan.Order = nil
		if cand.Plan.A >= len(cand.Tasks) {
			cand.Plan.A = 0
		}
		if try(cand) {
			c = cand
		}
	}
	for i := range c.Tasks {
		ops := kernel.DDMin(c.Tasks[i], func(o []SOp) bool {
			cand := c
			cand.Tasks = append([][]SOp(nil), c.Tasks...)
			cand.Tasks[i] = o
			return try(cand)
		}, 25)
		c.Tasks[i] = ops
	}
	if len(c.Plan.Switches) > 0 {
		c.Plan.Switches = kernel.DDMin(c.Plan.Switches, func(s []sched.Switch) bool {
			cand := c
			cand.Plan.Switches = s
			return try(cand)
		}, 25)
	}
	b, err := json.Marshal(c)
	if err != nil {
		return raw
	}
	return b
}

// installSysFonts writes corpus fonts into a scratch directory that the library will scan as
// the system font directory (hook VerifFontDirs) and re-arms the global initialisation.
func installSysFonts(files []string) (cleanup func(), err error) {
	base := os.Getenv("VERIF_SCRATCH")
	if base == "" {
		base = "/dev/shm"
		if st, e := os.Stat(base); e != nil || !st.IsDir() {
			base = os.TempDir()
		}
	}
	// fixed-width name: path lengths must not differ between processes
	d := fmt.Sprintf("%s/verif-sc-%08d", base, os.Getpid()%100000000)
	os.RemoveAll(d)
	if err = os.MkdirAll(d+"/fonts", 0o755); err != nil {
		return nil, err
	}
	for i, f := range files {
		ext := ".ttf"
		if strings.HasSuffix(f, ".otf") {
			ext = ".otf"
		}
		if err = os.WriteFile(fmt.Sprintf("%s/fonts/sys%d%s", d, i, ext), corpus.Bytes(f), 0o644); err != nil {
			os.RemoveAll(d)
			return nil, err
		}
	}
	sysCacheDir = d + "/cache"
	os.MkdirAll(sysCacheDir, 0o755)
	fontscan.VerifFontDirs = []string{d + "/fonts"}
	fontscan.VerifResetSystemFonts()
	return func() {
		fontscan.VerifFontDirs = nil
		fontscan.VerifResetSystemFonts()
		os.RemoveAll(d)
	}, nil
}

// scriptNoLib guesses the script of a text from Go's own Unicode tables: the coordinator must
// not call into the library's lookup functions before the tasks do (see Execute).
func scriptNoLib(text []rune) language.Script {
	for _, r := range text {
		switch {
		case unicode.Is(unicode.Latin, r):
			return language.Latin
		case unicode.Is(unicode.Arabic, r):
			return language.Arabic
		case unicode.Is(unicode.Hebrew, r):
			return language.Hebrew
		case unicode.Is(unicode.Cyrillic, r):
			return language.Cyrillic
		case unicode.Is(unicode.Greek, r):
			return language.Greek
		case unicode.Is(unicode.Devanagari, r):
			return language.Devanagari
		case unicode.Is(unicode.Thai, r):
			return language.Thai
		case unicode.Is(unicode.Han, r):
			return language.Han
		case unicode.Is(unicode.Hangul, r):
			return language.Hangul
		case unicode.Is(unicode.Mongolian, r):
			return language.Mongolian
		}
	}
	return language.Latin
}
