// Package engines holds the simulators, one per claimed property.
package engines

import (
	"fmt"

	"verifsim/kernel"
)

var registry = map[string]func() kernel.Engine{}

func register(name string, f func() kernel.Engine) { registry[name] = f }

// Get instantiates an engine by name.
func Get(name string) (kernel.Engine, error) {
	f, ok := registry[name]
	if !ok {
		return nil, fmt.Errorf("unknown engine %q (not built into this worker?)", name)
	}
	return f(), nil
}

// Names lists the engines built into this worker.
func Names() []string {
	var out []string
	for k := range registry {
		out = append(out, k)
	}
	return out
}
