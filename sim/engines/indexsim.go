package engines

// Engine `indexsim` (property C16): the font index — the only durable state of
// the library — under a simulated disk, a simulated clock and crashes.
//
//   - font tree: a scratch directory (tmpfs) mutated only by the simulator; every
//     mtime is set from the simulator's clock through os.Chtimes
//   - boots: the real refreshSystemFontsIndex (read cache, ignore if unreadable,
//     incremental scan, assertValid, write cache) through the verif hooks
//   - crashes: the cache write is replayed through the real serializeTo onto a
//     simulated file whose durable image is derived by a crash model
//   - exhaustive sub-family: every prefix and every single-byte corruption of a
//     serialized index

import (
	"bytes"
	"compress/gzip"
	"encoding/binary"
	"encoding/json"
	"fmt"
	"io"
	"math"
	"os"
	"path/filepath"
	"runtime"
	"sort"
	"strings"
	"syscall"
	"time"

	"github.com/go-text/typesetting/font"
	"github.com/go-text/typesetting/fontscan"
	"github.com/go-text/typesetting/language"

	"verifsim/corpus"
	"verifsim/faultdisk"
	"verifsim/kernel"
)

func init() { register("indexsim", func() kernel.Engine { return &ixEngine{} }) }

type ixEngine struct{}

func (*ixEngine) Name() string     { return "indexsim" }
func (*ixEngine) Property() string { return "C16" }

type IXStep struct {
	K    string                 `json:"k"`
	P    string                 `json:"p,omitempty"`
	P2   string                 `json:"p2,omitempty"`
	Font string                 `json:"font,omitempty"`
	N    int                    `json:"n,omitempty"`
	M    int                    `json:"m,omitempty"`
	S    int                    `json:"s,omitempty"`
	Wf   []faultdisk.WriteFault `json:"wf,omitempty"`
}

// SynthFootprint describes a synthetic footprint.
type SynthFootprint struct {
	FileLen   int       `json:"file_len"`
	FamilyLen int       `json:"family_len"`
	Index     uint16    `json:"index"`
	Instance  uint16    `json:"instance"`
	Runes     []rune    `json:"runes,omitempty"`
	NScripts  int       `json:"n_scripts"`
	Langs     [8]uint64 `json:"langs"`
	Style     uint8     `json:"style"`
	WeightBit uint32    `json:"weight_bits"`
	StretchBt uint32    `json:"stretch_bits"`
}

type SynthEntry struct {
	PathLen    int              `json:"path_len"`
	ModTime    int64            `json:"mod_time"`
	Footprints []SynthFootprint `json:"footprints,omitempty"`
}

type IXCase struct {
	Family string       `json:"family"` // history | clockfault | exhaustive | synthetic
	Roots  []string     `json:"roots,omitempty"`
	Steps  []IXStep     `json:"steps,omitempty"`
	Synth  []SynthEntry `json:"synth,omitempty"`
	Stride int          `json:"stride,omitempty"` // exhaustive: 1 = every byte
	// synthetic: that many more small entries of varying size, derived from BulkSalt when the case
	// runs (an index of the size of a real system: hundreds of KiB to MiB uncompressed, so that
	// every internal buffer and window size of the persistence layer is crossed at many offsets)
	Bulk     int    `json:"bulk,omitempty"`
	BulkSalt uint64 `json:"bulk_salt,omitempty"`
}

var ixFonts = []string{
	"ot:toys/Var1.ttf", "ot:toys/CFF2-VF.otf", "ot:toys/Sbix1.ttf", "ot:toys/KacstQurn.ttf", "ot:toys/chromacheck-svg.ttf",
	"ot:toys/Kern2.ttf", "ot:toys/Feat.ttf", "ot:toys/Trak.ttf", "ot:toys/CBLC1.ttf", "ot:toys/3cmaps.ttc", "ot:morx/One.ttf",
	"ot:common/Go-Mono-Bold-Italic.ttf", "ot:common/Lmmono-italic.otf", "ot:collections/Gacha_9.dfont",
	"ot:common/open-sans-v15-latin-regular.woff", "ot:cmap/CMAP12.otf", "ot:toys/NamesCFF.ttf", "ot:toys/GVAR-no-HVAR.ttf",
}

var ixDirs = []string{"", "sub", "sub/deep", "other", "other/x"}

// names that differ only by case or by a trailing blank / Unicode normalisation are different
// files on the file systems fonts live on
var ixNames = []string{"a.ttf", "b.otf", "c.ttc", "d.dfont", "e.woff", "f.txt", ".hidden.ttf", "g.afm", "h.TTF", "noext", "i.pcf.gz",
	"A.ttf", "B.otf", "a.TTF", "a .ttf", "\u00e9.ttf", "e\u0301.ttf"}

func ixPath(r *kernel.Rand) string {
	return filepath.Join(kernel.Pick(r, ixDirs), kernel.Pick(r, ixNames))
}

func (e *ixEngine) Generate(seed uint64, tier string, run int) (json.RawMessage, error) {
	rk := kernel.NewRand(seed, "knobs")
	rg := kernel.NewRand(seed, "gen")
	rf := kernel.NewRand(seed, "fault")
	var c IXCase
	switch rk.Weighted([]int{60, 20, 6, 14}) {
	case 0:
		c.Family = "history"
	case 1:
		c.Family = "clockfault"
	case 2:
		c.Family = "exhaustive"
	default:
		c.Family = "synthetic"
	}
	if c.Family == "synthetic" {
		c.Synth = genSynth(rg)
		c.Stride = kernel.Pick(rk, []int{0, 0, 7, 31})
		if rk.Chance(0.3) {
			c.Bulk, c.BulkSalt, c.Stride = kernel.Pick(rk, []int{300, 3000, 12000, 25000}), rg.Uint64(), 0
		}
		return json.Marshal(c)
	}
	c.Roots = kernel.Pick(rk, [][]string{{""}, {""}, {"sub", ""}, {"other", "sub"}, {"", "sub/deep"}, {"link", ""}, {"sub"}})
	var files []string
	add := func() IXStep {
		p := ixPath(rg)
		files = append(files, p)
		switch rg.Weighted([]int{8, 1, 2}) {
		case 0:
			return IXStep{K: "add", P: p, Font: kernel.Pick(rg, ixFonts)}
		case 1:
			return IXStep{K: "half", P: p, Font: kernel.Pick(rg, ixFonts), N: rg.Range(1, 3000)}
		}
		return IXStep{K: "junk", P: p, N: rg.Range(0, 600)}
	}
	someFile := func() string {
		if len(files) > 0 && rg.Chance(0.85) {
			return kernel.Pick(rg, files)
		}
		return ixPath(rg)
	}
	if rk.Chance(0.85) {
		// a valid font that no later mutation names, inside the first scan root: without one the
		// scan ends with "no valid font" in both modes and the boot compares nothing but that
		root := c.Roots[0]
		if root == "link" {
			root = ""
		}
		c.Steps = append(c.Steps, IXStep{K: "add", P: filepath.Join(root, "keep", "keeper.ttf"), Font: kernel.Pick(rg, ixFonts)})
	}
	for i := rk.Range(1, 5); i > 0; i-- {
		c.Steps = append(c.Steps, add())
	}
	if c.Family == "exhaustive" {
		c.Steps = append(c.Steps, IXStep{K: "boot"})
		c.Stride = 1
		return json.Marshal(c)
	}
	c.Steps = append(c.Steps, IXStep{K: "boot"})
	n := rk.Range(3, 15)
	faulty := rk.Chance(0.6)
	for len(c.Steps) < n+3 {
		w := []int{5, 3, 4, 3, 3, 1, 1, 2, 8, 0, 0, 0, 0, 0, 0, 2, 1, 1, 2, 1}
		if faulty {
			w[9], w[10], w[11] = 4, 2, 2
		}
		if c.Family == "clockfault" {
			w[12], w[13], w[14] = 5, 1, 2
		}
		switch rg.Weighted(w) {
		case 0:
			c.Steps = append(c.Steps, add())
		case 1:
			c.Steps = append(c.Steps, IXStep{K: "remove", P: someFile()})
		case 2:
			c.Steps = append(c.Steps, IXStep{K: "replace", P: someFile(), Font: kernel.Pick(rg, ixFonts)})
		case 3:
			c.Steps = append(c.Steps, IXStep{K: "touch", P: someFile()})
		case 4:
			p2 := ixPath(rg)
			c.Steps = append(c.Steps, IXStep{K: "rename", P: someFile(), P2: p2})
			files = append(files, p2)
		case 5:
			c.Steps = append(c.Steps, IXStep{K: "rmtree", P: kernel.Pick(rg, ixDirs[1:])})
		case 6:
			c.Steps = append(c.Steps, IXStep{K: "mkdir", P: kernel.Pick(rg, ixDirs[1:])})
		case 7:
			switch rg.Intn(3) {
			case 0:
				c.Steps = append(c.Steps, IXStep{K: "symlink", P: "link", P2: kernel.Pick(rg, ixDirs[1:]), N: rg.Intn(5)})
			case 1:
				c.Steps = append(c.Steps, IXStep{K: "symlink", P: filepath.Join(kernel.Pick(rg, ixDirs), "l.ttf"), P2: someFile(), N: rg.Intn(5)})
			default:
				c.Steps = append(c.Steps, IXStep{K: "symlink", P: filepath.Join(kernel.Pick(rg, ixDirs), "dirlink"), P2: kernel.Pick(rg, ixDirs[1:]), N: rg.Intn(5)})
			}
		case 8:
			c.Steps = append(c.Steps, IXStep{K: "boot"})
		case 9: // crash during the boot's cache write
			c.Steps = append(c.Steps, IXStep{K: "crashboot", M: rf.Weighted([]int{5, 2, 2, 2, 2}), N: rf.Intn(1 << 20), S: rf.Intn(1 << 20)}, IXStep{K: "boot"})
		case 10: // corruption at rest
			c.Steps = append(c.Steps, IXStep{K: "corrupt", N: rf.Intn(1 << 20), M: rf.Intn(1 << 16), S: rf.Range(1, 3)}, IXStep{K: "boot"})
		case 11: // write faults
			kind := kernel.Pick(rf, []string{"eio", "enospc", "short"})
			c.Steps = append(c.Steps, IXStep{K: "wfault", Wf: []faultdisk.WriteFault{{Call: rf.Intn(30), Kind: kind, N: rf.Intn(200)}}, N: rf.Intn(3) * rf.Intn(4000)}, IXStep{K: "boot"})
		case 12:
			c.Steps = append(c.Steps, IXStep{K: "replace_same_mtime", P: someFile(), Font: kernel.Pick(rg, ixFonts)}, IXStep{K: "boot"})
		case 13:
			c.Steps = append(c.Steps, IXStep{K: "clockback", N: rg.Range(1, 40)})
		case 14:
			c.Steps = append(c.Steps, IXStep{K: "stampfar", P: someFile(), M: rg.Intn(4)})
		case 15: // a whole directory moves: every file keeps its mtime under a new path
			c.Steps = append(c.Steps, IXStep{K: "renamedir", P: kernel.Pick(rg, ixDirs[1:]), P2: kernel.Pick(rg, []string{"moved", "a/moved", "b/x/moved", "moved2"})})
		case 16: // a symlink keeps its path and points elsewhere
			switch rg.Intn(2) {
			case 0:
				c.Steps = append(c.Steps, IXStep{K: "retarget", P: filepath.Join(kernel.Pick(rg, ixDirs), "l.ttf"), P2: someFile()})
			default:
				c.Steps = append(c.Steps, IXStep{K: "retarget", P: kernel.Pick(rg, []string{"link", filepath.Join(kernel.Pick(rg, ixDirs), "dirlink")}), P2: kernel.Pick(rg, ixDirs[1:])})
			}
		case 19: // a font file replaced by something that can be stat'ed but not opened (a socket)
			c.Steps = append(c.Steps, IXStep{K: "unopenable", P: someFile()})
		case 18: // cp -p / archive extraction: a new file carries the modification time of another one
			p := ixPath(rg)
			files = append(files, p)
			c.Steps = append(c.Steps, IXStep{K: "add_same_stamp", P: p, P2: someFile(), Font: kernel.Pick(rg, ixFonts)})
		case 17: // a path changes kind: a file where a directory was, or the reverse
			c.Steps = append(c.Steps, IXStep{K: "swapkind", P: kernel.Pick(rg, append(append([]string{}, ixDirs[1:]...), someFile())), Font: kernel.Pick(rg, ixFonts)})
		}
	}
	c.Steps = append(c.Steps, IXStep{K: "boot"})
	return json.Marshal(c)
}

func genSynth(r *kernel.Rand) []SynthEntry {
	var out []SynthEntry
	lens := []int{0, 1, 5, 40, 300, 65535, 65534}
	for i := r.Range(0, 5); i > 0; i-- {
		e := SynthEntry{PathLen: kernel.Pick(r, lens), ModTime: kernel.Pick(r, []int64{0, 1, -1, math.MaxInt64, math.MinInt64, 1600000000123456789})}
		for j := r.Range(0, 4); j > 0; j-- {
			fp := SynthFootprint{FileLen: kernel.Pick(r, lens), FamilyLen: kernel.Pick(r, lens), Index: uint16(r.Intn(65536)), Instance: uint16(r.Intn(65536)),
				NScripts: kernel.Pick(r, []int{0, 1, 3, 255}), Style: uint8(r.Intn(4)),
				WeightBit: kernel.Pick(r, []uint32{0, math.Float32bits(400), math.Float32bits(700), 0x7fc00001, 0xff800000, uint32(r.Uint64())}),
				StretchBt: kernel.Pick(r, []uint32{0, math.Float32bits(1), 0x7fc00000, uint32(r.Uint64())})}
			for k := range fp.Langs {
				if r.Chance(0.5) {
					fp.Langs[k] = r.Uint64()
				}
			}
			for k := kernel.Pick(r, []int{0, 0, 1, 10, 300}); k > 0; k-- {
				fp.Runes = append(fp.Runes, rune(kernel.Pick(r, []int{r.Intn(0x300), r.Intn(0x110000), 0, 0x10FFFF, 0xFFFF, 0x10000})))
			}
			e.Footprints = append(e.Footprints, fp)
		}
		out = append(out, e)
	}
	return out
}

// ------------------------------------------------------------------ world

type ixWorld struct {
	c      *IXCase
	out    *kernel.Outcome
	dir    string // scratch
	tree   string
	cache  string
	now    int64
	ticks  int
	stamps map[string]int64 // rel path -> simulated mtime (regular files)
	// paths whose entry may legitimately be stale (mtime collision created by a clock fault)
	stale     map[string]bool
	prevEnt   map[string]string // path -> entry digest at the previous boot
	lastIdx   fontscan.VerifIndex
	haveLast  bool
	trace     uint64
	states    map[string]bool
	refN      int
	corrupted bool // the cache file holds stored-byte corruption (not a pure crash image)
	// digests of the indexes a pure crash can legitimately leave in the cache file
	legit [][]string
	// entry digests that came verbatim out of a corrupted-but-well-formed cache image: they may
	// legitimately survive refreshes (reused by path+mtime) until the file changes
	tainted   map[string]bool
	dirty     map[string]bool  // rel paths whose content changed since the last boot
	bootStamp map[string]int64 // rel path -> mtime at the last boot
}

const ixBase = int64(1_600_000_000) * 1_000_000_000

// tick advances the simulated clock by a varying amount (nanoseconds to hours), so that
// correctness cannot depend on one timestamp granularity. Deterministic in the tick count.
func (w *ixWorld) tick() int64 {
	inc := []int64{7, 1_000_003, 1_000_000_007, 3_600_000_000_011, 999, 20_000_000}[w.ticks%6]
	w.ticks++
	w.now += inc
	w.out.Count("simclock_span", inc)
	return w.now
}

func (w *ixWorld) abs(rel string) string { return filepath.Join(w.tree, rel) }

func (w *ixWorld) log(s string) { w.trace = kernel.SplitMix64(w.trace ^ kernel.HashString(s)) }

func scratchBase() string {
	base := os.Getenv("VERIF_SCRATCH")
	if base == "" {
		base = "/dev/shm"
		if st, err := os.Stat(base); err != nil || !st.IsDir() {
			base = os.TempDir()
		}
	}
	return base
}

// restamp sets the mtime of every regular file from the simulated clock and of
// every directory to a constant, so that no wall-clock value can reach an index.
func (w *ixWorld) restamp() error {
	return filepath.Walk(w.tree, func(p string, info os.FileInfo, err error) error {
		if err != nil {
			return nil
		}
		if info.Mode()&os.ModeSymlink != 0 {
			return nil
		}
		rel, _ := filepath.Rel(w.tree, p)
		t := time.Unix(0, ixBase)
		if !info.IsDir() {
			st, ok := w.stamps[rel]
			if !ok {
				st = w.tick()
				w.stamps[rel] = st
			}
			t = time.Unix(0, st)
		}
		return os.Chtimes(p, t, t)
	})
}

func (w *ixWorld) strip(s string) string { return s }

// real resolves a path (relative to the scratch directory) to its canonical absolute form.
func (w *ixWorld) real(p string) (string, error) {
	a, err := filepath.Abs(p)
	if err != nil {
		return "", err
	}
	return filepath.EvalSymlinks(a)
}

func footprintDigest(fp fontscan.Footprint, strip func(string) string) string {
	return fmt.Sprintf("{loc=%s#%d/%d fam=%q aspect=%d/%08x/%08x scripts=%v langs=%v runes=%x}",
		strip(fp.Location.File), fp.Location.Index, fp.Location.Instance, fp.Family, fp.Aspect.Style,
		math.Float32bits(float32(fp.Aspect.Weight)), math.Float32bits(float32(fp.Aspect.Stretch)),
		[]language.Script(fp.Scripts), [8]uint64(fp.Langs), kernel.HashString(fmt.Sprint(fp.Runes)))
}

func entryDigest(e fontscan.VerifFileEntry, strip func(string) string) string {
	var sb strings.Builder
	fmt.Fprintf(&sb, "%s @%d [", strip(e.Path), e.ModTime)
	for _, fp := range e.Footprints {
		sb.WriteString(footprintDigest(fp, strip))
	}
	sb.WriteString("]")
	return sb.String()
}

func indexDigest(idx fontscan.VerifIndex, strip func(string) string) []string {
	var out []string
	for _, e := range fontscan.VerifIndexEntries(idx) {
		out = append(out, entryDigest(e, strip))
	}
	return out
}

func sameStrings(a, b []string) bool {
	if len(a) != len(b) {
		return false
	}
	for i := range a {
		if a[i] != b[i] {
			return false
		}
	}
	return true
}

func diffStrings(a, b []string) string {
	for i := 0; i < len(a) || i < len(b); i++ {
		var x, y string
		if i < len(a) {
			x = a[i]
		}
		if i < len(b) {
			y = b[i]
		}
		if x != y {
			cut := func(s string) string {
				if len(s) > 260 {
					return s[:260] + "…"
				}
				return s
			}
			return fmt.Sprintf("entry %d: got %s, want %s (lengths %d/%d)", i, cut(x), cut(y), len(a), len(b))
		}
	}
	return "equal"
}

func (e *ixEngine) Execute(raw json.RawMessage) (*kernel.Outcome, error) {
	var c IXCase
	if err := json.Unmarshal(raw, &c); err != nil {
		return nil, err
	}
	w := &ixWorld{c: &c, out: &kernel.Outcome{}, stamps: map[string]int64{}, stale: map[string]bool{}, prevEnt: map[string]string{}, states: map[string]bool{}, now: ixBase,
		dirty: map[string]bool{}, bootStamp: map[string]int64{}, tainted: map[string]bool{}}
	d, err := os.MkdirTemp(scratchBase(), "verif-ix-")
	if err != nil {
		return nil, err
	}
	defer os.RemoveAll(d)
	// The process works inside its private scratch directory with relative paths, so that
	// the paths stored in an index (and hence its serialized bytes) are identical in every
	// process that executes the same case.
	if err := os.Chdir(d); err != nil {
		return nil, err
	}
	defer os.Chdir("/")
	w.dir, w.tree = d, "tree"
	w.cache = filepath.Join("cache", "font_index.cache")
	if err := os.MkdirAll(w.tree, 0o755); err != nil {
		return nil, err
	}
	defer func() { fontscan.VerifFontDirs = nil }()
	var roots []string
	for _, r := range c.Roots {
		roots = append(roots, filepath.Join(w.tree, r))
	}
	fontscan.VerifFontDirs = roots
	w.out.Count("family."+c.Family, 1)

	var v *kernel.Violation
	if c.Family == "synthetic" {
		v, err = w.runSynthetic()
	} else {
		for i := range c.Steps {
			st := &c.Steps[i]
			w.out.Count("op."+st.K, 1)
			v, err = w.step(st, roots)
			if err != nil {
				return nil, err
			}
			if v != nil {
				v.Detail = fmt.Sprintf("step #%d (%s): %s", i, st.K, v.Detail)
				break
			}
		}
		if v == nil && c.Family == "exhaustive" {
			b, rerr := os.ReadFile(w.cache)
			if rerr == nil && w.haveLast {
				v = w.enumerate(b, w.lastIdx, c.Stride)
			}
		}
	}
	w.out.Violation = v
	w.out.Trace = w.trace
	for s := range w.states {
		w.out.States = append(w.out.States, s)
	}
	sort.Strings(w.out.States)
	return w.out, nil
}

func junkBytes(n int) []byte {
	r := kernel.NewRand(uint64(n)+1, "junk")
	b := make([]byte, n)
	for i := range b {
		b[i] = byte(r.Uint64())
	}
	return b
}

func (w *ixWorld) writeFile(rel string, data []byte, keepStamp bool) error {
	p := w.abs(rel)
	if st, err := os.Lstat(p); err == nil && (st.IsDir() || st.Mode()&os.ModeSymlink != 0) {
		return nil // do not write through symlinks or over directories
	}
	if err := os.MkdirAll(filepath.Dir(p), 0o755); err != nil {
		return nil // a path component is a file: the mutation is not applicable
	}
	if err := os.WriteFile(p, data, 0o644); err != nil {
		return nil
	}
	w.dirty[rel] = true
	if !keepStamp {
		w.stamps[rel] = w.tick()
	} else if _, ok := w.stamps[rel]; !ok {
		w.stamps[rel] = w.tick()
	}
	return nil
}

func (w *ixWorld) step(st *IXStep, roots []string) (*kernel.Violation, error) {
	mut := true
	switch st.K {
	case "add", "replace":
		w.writeFile(st.P, corpus.Bytes(st.Font), false)
	case "half":
		b := corpus.Bytes(st.Font)
		n := st.N
		if n > len(b) {
			n = len(b) / 2
		}
		w.writeFile(st.P, b[:n], false)
		w.out.Count("probe.half_copied_font", 1)
	case "junk":
		w.writeFile(st.P, junkBytes(st.N), false)
	case "unopenable":
		p := w.abs(st.P)
		if s1, err := os.Lstat(p); err == nil && s1.Mode().IsRegular() {
			os.Remove(p)
			if syscall.Mknod(p, syscall.S_IFSOCK|0o644, 0) == nil {
				w.stamps[st.P] = w.tick()
				w.dirty[st.P] = true
				w.out.Count("probe.file_replaced_by_unopenable_node", 1)
			} else {
				delete(w.stamps, st.P)
			}
		}
	case "add_same_stamp":
		if st2, ok := w.stamps[st.P2]; ok && st.P != st.P2 {
			if _, exists := w.stamps[st.P]; !exists {
				w.writeFile(st.P, corpus.Bytes(st.Font), false)
				if _, ok := w.stamps[st.P]; ok {
					w.stamps[st.P] = st2
					w.out.Count("probe.new_file_with_the_mtime_of_another", 1)
				}
			}
		}
	case "replace_same_mtime":
		if _, ok := w.stamps[st.P]; ok {
			w.writeFile(st.P, corpus.Bytes(st.Font), true)
			w.out.Count("fault.same_mtime_replace", 1)
		}
	case "remove":
		if st2, err := os.Lstat(w.abs(st.P)); err == nil && !st2.IsDir() {
			os.Remove(w.abs(st.P))
			delete(w.stamps, st.P)
		}
	case "touch":
		if _, ok := w.stamps[st.P]; ok {
			w.stamps[st.P] = w.tick()
		}
	case "rename":
		src, dst := w.abs(st.P), w.abs(st.P2)
		if s1, err := os.Lstat(src); err == nil && s1.Mode().IsRegular() {
			if s2, err := os.Lstat(dst); err != nil || s2.Mode().IsRegular() {
				if os.MkdirAll(filepath.Dir(dst), 0o755) == nil && os.Rename(src, dst) == nil {
					// a rename keeps the file's modification time
					w.stamps[st.P2] = w.stamps[st.P]
					delete(w.stamps, st.P)
					w.dirty[st.P2] = true
					w.out.Count("probe.rename", 1)
				}
			}
		}
	case "mkdir":
		os.MkdirAll(w.abs(st.P), 0o755)
	case "rmtree":
		os.RemoveAll(w.abs(st.P))
		for k := range w.stamps {
			if k == st.P || strings.HasPrefix(k, st.P+"/") {
				delete(w.stamps, k)
			}
		}
	case "symlink":
		p := w.abs(st.P)
		if _, err := os.Stat(w.abs(st.P2)); err != nil && st.N%5 != 0 {
			// a dangling link makes every later scan fail as a whole (in both modes): kept in a
			// fifth of the cases only, so that most histories go on comparing indexes
			break
		}
		if _, err := os.Lstat(p); err != nil {
			if os.MkdirAll(filepath.Dir(p), 0o755) == nil {
				target := filepath.Join(w.dir, w.abs(st.P2)) // absolute target; only the link's own path reaches the index
				if os.Symlink(target, p) == nil {
					w.out.Count("probe.symlink", 1)
				}
			}
		}
	case "renamedir":
		src, dst := w.abs(st.P), w.abs(st.P2)
		if s1, err := os.Lstat(src); err == nil && s1.IsDir() {
			if _, err := os.Lstat(dst); err != nil && !strings.HasPrefix(st.P2+"/", st.P+"/") {
				if os.MkdirAll(filepath.Dir(dst), 0o755) == nil && os.Rename(src, dst) == nil {
					for k, v := range w.stamps {
						if strings.HasPrefix(k, st.P+"/") {
							nk := st.P2 + k[len(st.P):]
							w.stamps[nk] = v
							w.dirty[nk] = true
							delete(w.stamps, k)
						}
					}
					w.out.Count("probe.directory_renamed", 1)
				}
			}
		}
	case "retarget":
		p := w.abs(st.P)
		if s1, err := os.Lstat(p); err == nil && s1.Mode()&os.ModeSymlink != 0 {
			os.Remove(p)
			if os.Symlink(filepath.Join(w.dir, w.abs(st.P2)), p) == nil {
				w.out.Count("probe.symlink_retargeted", 1)
			}
		}
	case "swapkind":
		p := w.abs(st.P)
		if s1, err := os.Lstat(p); err == nil && s1.Mode()&os.ModeSymlink == 0 {
			if s1.IsDir() {
				os.RemoveAll(p)
				for k := range w.stamps {
					if strings.HasPrefix(k, st.P+"/") {
						delete(w.stamps, k)
					}
				}
				w.writeFile(st.P, corpus.Bytes(st.Font), false)
			} else {
				os.Remove(p)
				delete(w.stamps, st.P)
				w.writeFile(filepath.Join(st.P, "inner.ttf"), corpus.Bytes(st.Font), false)
			}
			w.out.Count("probe.path_changed_kind", 1)
		}
	case "clockback":
		w.now -= int64(st.N) * 1_000_003
		w.out.Count("fault.clock_jump_back", 1)
	case "stampfar":
		if _, ok := w.stamps[st.P]; ok {
			w.stamps[st.P] = []int64{-5_000_000_000_000_000_000, 8_000_000_000_000_000_000, 0, -1}[st.M%4] + w.tick()%1000
			w.out.Count("fault.extreme_mtime", 1)
		}
	case "boot":
		mut = false
		return w.boot(roots, nil)
	case "crashboot":
		mut = false
		return w.boot(roots, st)
	case "corrupt":
		mut = false
		b, err := os.ReadFile(w.cache)
		if err == nil && len(b) > 0 {
			r := kernel.NewRand(uint64(st.N)<<16|uint64(st.M), "corrupt")
			for i := 0; i < st.S; i++ {
				pos := r.Intn(len(b))
				switch r.Intn(3) {
				case 0:
					b[pos] ^= 1 << uint(r.Intn(8))
				case 1:
					b[pos] = 0
				default:
					b[pos] = 0xFF
				}
			}
			os.WriteFile(w.cache, b, 0o644)
			w.corrupted = true
			w.out.Count("fault.cache_bytes_corrupted", 1)
			w.out.Nontrivial = true
			return w.decodeTotal(b, "corrupt")
		}
	case "wfault":
		mut = false
		if w.haveLast {
			wf := faultdisk.NewWFile(st.Wf, st.N)
			var serr error
			res := protect(func() { serr = fontscan.VerifSerializeIndex(w.lastIdx, wf) })
			if res.panicked {
				return &kernel.Violation{Oracle: "write-fault-total", Site: "serialize:panic:" + res.site, Detail: fmt.Sprintf("serializeTo panicked under a write fault: %s at %s", res.val, res.where)}, nil
			}
			fired := 0
			for k, n := range wf.Fired {
				w.out.Count("fault.write_"+k, int64(n))
				fired += n
			}
			if fired > 0 {
				w.out.Nontrivial = true
				if serr == nil {
					return &kernel.Violation{Oracle: "write-fault-reported", Site: "serialize:error-swallowed", Detail: fmt.Sprintf("the writer failed (%v) but serializeTo returned nil", wf.Fired)}, nil
				}
				// whatever reached the disk is a crash image like any other
				os.MkdirAll(filepath.Dir(w.cache), 0o755)
				os.WriteFile(w.cache, wf.Volatile, 0o644)
				return w.decodeTotal(wf.Volatile, "wfault")
			}
		}
	}
	if mut {
		if err := w.restamp(); err != nil {
			return nil, err
		}
	}
	return nil, nil
}

func (w *ixWorld) isLegit(d []string) bool {
	for _, l := range w.legit {
		if sameStrings(l, d) {
			return true
		}
	}
	return false
}

// decodeTotal is oracle 2: any durable image decodes to an error or an index, no panic,
// allocation in proportion to the image.
func (w *ixWorld) decodeTotal(img []byte, what string) (*kernel.Violation, error) {
	_, _, v := w.decode(img, what)
	return v, nil
}

func (w *ixWorld) decode(img []byte, what string) (fontscan.VerifIndex, error, *kernel.Violation) {
	var idx fontscan.VerifIndex
	var derr error
	var m0, m1 runtime.MemStats
	runtime.ReadMemStats(&m0)
	res := protect(func() { idx, derr = fontscan.VerifDeserializeIndex(bytes.NewReader(img)) })
	runtime.ReadMemStats(&m1)
	w.out.Count("check.decode_total", 1)
	if res.panicked {
		return nil, nil, &kernel.Violation{Oracle: "decode-total", Site: "deserialize:panic:" + res.site,
			Detail: fmt.Sprintf("deserializeIndex panicked on a %s image of %d bytes: %s at %s", what, len(img), res.val, res.where)}
	}
	alloc := m1.TotalAlloc - m0.TotalAlloc
	if budget := uint64(64<<20) + 4096*uint64(len(img)); alloc > budget {
		return nil, nil, &kernel.Violation{Oracle: "decode-total", Site: "deserialize:allocation",
			Detail: fmt.Sprintf("deserializeIndex allocated %d bytes for a %s image of %d bytes (budget %d)", alloc, what, len(img), budget)}
	}
	return idx, derr, nil
}

// boot is one process start: the real refreshSystemFontsIndex, then the oracles.
func (w *ixWorld) boot(roots []string, crash *IXStep) (*kernel.Violation, error) {
	// mtime collisions: a path whose content changed since the last boot but whose
	// mtime is the one the last boot saw cannot be noticed by design (path + mtime key)
	for rel := range w.dirty {
		if st, ok := w.stamps[rel]; ok {
			if bs, ok2 := w.bootStamp[rel]; ok2 && bs == st {
				if real, err := w.real(w.abs(rel)); err == nil {
					w.stale[real] = true
					w.out.Count("fault.mtime_collision", 1)
					w.out.Nontrivial = true
				}
			}
		}
	}
	oldBytes, _ := os.ReadFile(w.cache)
	var oldDigest []string
	oldOK := false
	if len(oldBytes) > 0 {
		if oi, oe, _ := w.decode(oldBytes, "pre-boot"); oe == nil {
			oldDigest, oldOK = indexDigest(oi, w.strip), true
		}
	}
	var idx fontscan.VerifIndex
	var berr error
	res := protect(func() { idx, berr = fontscan.VerifRefresh(nopLogger{}, w.cache) })
	// reference: a boot with no cache file at all
	w.refN++
	refCache := filepath.Join(fmt.Sprintf("refcache-%d", w.refN), "font_index.cache")
	var ref fontscan.VerifIndex
	var rerr error
	res2 := protect(func() { ref, rerr = fontscan.VerifRefresh(nopLogger{}, refCache) })
	os.RemoveAll(filepath.Dir(refCache))
	w.out.Count("check.boot", 1)
	if res.panicked && res2.panicked {
		// a scan that panics identically with and without cache (half-copied font) is C09's domain
		w.out.Count("shared_panic.scan", 1)
		return nil, nil
	}
	if res.panicked != res2.panicked {
		r := res
		if res2.panicked {
			r = res2
		}
		return &kernel.Violation{Oracle: "recovery", Site: "boot:panic:" + r.site,
			Detail: fmt.Sprintf("boot with cache panicked=%v, boot without cache panicked=%v: %s at %s", res.panicked, res2.panicked, r.val, r.where)}, nil
	}
	// stored-byte corruption that decodes to a different well-formed index: its entries may be
	// reused verbatim by this and later refreshes (the property allows "a well-formed index")
	if w.corrupted && oldOK && !w.isLegit(oldDigest) {
		legitEntries := map[string]bool{}
		for _, l := range w.legit {
			for _, e := range l {
				legitEntries[e] = true
			}
		}
		for _, e := range oldDigest {
			if !legitEntries[e] {
				w.tainted[e] = true
			}
		}
		w.out.Count("silently_accepted_corruption_reached_refresh", 1)
	}
	w.corrupted = false
	if (berr != nil) != (rerr != nil) {
		if berr != nil && rerr == nil && (len(w.stale) > 0 || len(w.tainted) > 0) && strings.Contains(berr.Error(), "no valid font") {
			// consequence of a stale (mtime collision) or tainted entry being the only candidate
			w.out.Count("probe.boot_error_explained_by_stale_entry", 1)
			return nil, nil
		}
		return &kernel.Violation{Oracle: "recovery", Site: "boot:error-differs",
			Detail: fmt.Sprintf("boot with the existing cache file: err=%v; boot without cache file: err=%v", berr, rerr)}, nil
	}
	if berr != nil {
		w.out.Count("probe.boot_error_in_both_modes", 1)
		switch msg := berr.Error(); {
		case strings.Contains(msg, "no valid font"):
			w.out.Count("boot_error.no_valid_font", 1)
		case strings.Contains(msg, "no such file"):
			w.out.Count("boot_error.dangling_path", 1)
		case strings.Contains(msg, "too many levels") || strings.Contains(msg, "loop"):
			w.out.Count("boot_error.symlink_loop", 1)
		default:
			w.out.Count("boot_error.other", 1)
		}
		w.log("boot error")
		return nil, nil
	}
	got, want := indexDigest(idx, w.strip), indexDigest(ref, w.strip)
	// incremental = from scratch (oracle 5) / recovery (oracle 4)
	reused, rescanned := 0, 0
	for _, e := range got {
		path := e[:strings.Index(e, " @")]
		if w.prevEnt[path] == e {
			reused++
		} else {
			rescanned++
		}
	}
	if reused > 0 {
		w.out.Count("probe.entry_reused", int64(reused))
		w.out.Nontrivial = true
	}
	if rescanned > 0 {
		w.out.Count("probe.entry_rescanned", int64(rescanned))
	}
	{
		now := map[string]bool{}
		for _, e := range got {
			now[e[:strings.Index(e, " @")]] = true
		}
		for p := range w.prevEnt {
			if !now[p] {
				w.out.Count("probe.entry_dropped", 1)
			}
		}
	}
	if !sameStrings(got, want) {
		// narrow relaxations: exactly the paths with an mtime collision may keep their previous
		// entry; exactly the entries that came out of a corrupted cache image may be carried over
		relaxed := len(got) == len(want) && (len(w.stale) > 0 || len(w.tainted) > 0)
		for i := 0; relaxed && i < len(got); i++ {
			if got[i] == want[i] {
				continue
			}
			path := got[i][:strings.Index(got[i], " @")]
			ok := w.tainted[got[i]]
			if real, err := w.real(path); err == nil && w.stale[real] && w.prevEnt[path] == got[i] {
				ok = true
			}
			if !ok {
				relaxed = false
			}
		}
		if relaxed {
			w.out.Count("probe.stale_or_tainted_entry_carried_over", 1)
			goto accepted
		}
		return &kernel.Violation{Oracle: "incremental-equals-scratch", Site: "boot:index-differs",
			Detail: "index after a boot with the existing cache differs from a boot without cache: " + diffStrings(got, want)}, nil
	}
accepted:
	{
		// literal oracle 5: equals a scan with an empty previous index
		var scratch fontscan.VerifIndex
		var serr error
		res3 := protect(func() { scratch, serr = fontscan.VerifScan(nopLogger{}, nil, roots...) })
		if !res3.panicked && serr == nil {
			if sd := indexDigest(scratch, w.strip); !sameStrings(want, sd) {
				return &kernel.Violation{Oracle: "incremental-equals-scratch", Site: "boot:scan-differs",
					Detail: "boot without cache differs from scanFontFootprints(nil, dirs): " + diffStrings(want, sd)}, nil
			}
		}
		// the cache file written by the boot decodes to the returned index (round trip, oracle 1)
		b, rerr := os.ReadFile(w.cache)
		if rerr != nil {
			return &kernel.Violation{Oracle: "round-trip", Site: "boot:cache-missing", Detail: "the boot returned no error but left no cache file: " + rerr.Error()}, nil
		}
		di, derr, v := w.decode(b, "written")
		if v != nil {
			return v, nil
		}
		if derr != nil {
			return &kernel.Violation{Oracle: "round-trip", Site: "boot:cache-unreadable", Detail: "the cache file written by a successful boot does not decode: " + derr.Error()}, nil
		}
		if dd := indexDigest(di, w.strip); !sameStrings(dd, got) {
			return &kernel.Violation{Oracle: "round-trip", Site: "boot:cache-differs", Detail: "the cache file written by the boot decodes to a different index: " + diffStrings(dd, got)}, nil
		}
		w.out.Count("check.round_trip", 1)
	}
	w.lastIdx, w.haveLast = idx, true
	w.prevEnt = map[string]string{}
	for _, e := range got {
		w.prevEnt[e[:strings.Index(e, " @")]] = e
	}
	// stale allowances end once the colliding path is in sync again
	if sameStrings(got, want) {
		w.stale = map[string]bool{}
	}
	w.legit = [][]string{got}
	w.dirty = map[string]bool{}
	w.bootStamp = map[string]int64{}
	for k, v := range w.stamps {
		w.bootStamp[k] = v
	}
	w.states[fmt.Sprintf("boot:files=%s,reused=%s,rescanned=%s,old=%v", bucket(len(got)), bucket(reused), bucket(rescanned), oldOK)] = true
	w.log("boot " + strings.Join(got, "|"))

	if crash != nil {
		return w.crashWrite(idx, got, oldBytes, oldDigest, oldOK, crash), nil
	}
	return nil, nil
}

// crashWrite replays the boot's cache write through the real serializeTo onto the
// simulated disk, stops it at a seeded point and replaces the cache file by the
// durable image of the chosen crash model. Oracles 2 and 3.
func (w *ixWorld) crashWrite(idx fontscan.VerifIndex, newDigest []string, oldBytes []byte, oldDigest []string, oldOK bool, st *IXStep) *kernel.Violation {
	wf := faultdisk.NewWFile(nil, 0)
	if err := fontscan.VerifSerializeIndex(idx, wf); err != nil {
		return &kernel.Violation{Oracle: "round-trip", Site: "serialize:error", Detail: "serializeTo failed on a fault-free writer: " + err.Error()}
	}
	vol := wf.Volatile
	// crash point: after a whole number of write calls, or in the middle of one
	n := 0
	if len(wf.Writes) > 0 {
		k := st.N % (len(wf.Writes) + 1)
		if k > 0 {
			n = wf.Writes[k-1]
		}
		if st.S%2 == 1 && k < len(wf.Writes) {
			n += (st.S / 2) % (wf.Writes[k] - n + 1)
		}
	}
	model := st.M % 5
	img := faultdisk.CrashImage(vol, oldBytes, model, n, st.S%(len(vol)+1), []int{512, 4096}[st.S%2])
	w.out.Count(fmt.Sprintf("fault.crash_model_%d", model), 1)
	w.out.Count("probe.write_calls_of_serializer", int64(len(wf.Writes)))
	w.out.Nontrivial = true
	os.WriteFile(w.cache, img, 0o644)
	di, derr, v := w.decode(img, fmt.Sprintf("crash(model %d)", model))
	if v != nil {
		return v
	}
	w.legit = [][]string{newDigest}
	if oldOK {
		w.legit = append(w.legit, oldDigest)
	}
	outcome := "error"
	if derr == nil {
		dd := indexDigest(di, w.strip)
		switch {
		case sameStrings(dd, newDigest):
			outcome = "new"
		case oldOK && sameStrings(dd, oldDigest):
			outcome = "old"
		default:
			outcome = "other"
		}
	}
	w.out.Count("probe.crash_image_decoded_as_"+outcome, 1)
	w.states[fmt.Sprintf("crash:model=%d,decode=%s", model, outcome)] = true
	if model >= 3 {
		// torn / zeroed sectors are stored-byte corruption: any well-formed index is allowed
		if outcome == "other" {
			w.corrupted = true
		}
		return nil
	}
	if outcome == "other" {
		return &kernel.Violation{Oracle: "crash-atomicity", Site: "crash:third-value",
			Detail: fmt.Sprintf("a crash image (model %d, %d of %d bytes durable) decodes to an index that is neither the old nor the new one", model, len(img), len(vol))}
	}
	return nil
}

// enumerate is the exhaustive sub-family: every prefix length and, with the given
// stride, every single byte set to 0x00, 0xFF and with one bit flipped.
func (w *ixWorld) enumerate(b []byte, idx fontscan.VerifIndex, stride int) *kernel.Violation {
	want := indexDigest(idx, w.strip)
	accepted := 0
	for l := 0; l < len(b); l++ {
		di, derr, v := w.decode(b[:l], "prefix")
		if v != nil {
			v.Detail = fmt.Sprintf("prefix length %d of %d: %s", l, len(b), v.Detail)
			return v
		}
		w.out.Count("exhaustive_cases", 1)
		if derr == nil {
			if !sameStrings(indexDigest(di, w.strip), want) {
				return &kernel.Violation{Oracle: "crash-atomicity", Site: "prefix:third-value",
					Detail: fmt.Sprintf("the %d-byte prefix of a %d-byte cache decodes without error to a different index", l, len(b))}
			}
			w.out.Count("probe.prefix_decodes_to_full_index", 1)
		}
	}
	if stride <= 0 {
		stride = 1
	}
	buf := make([]byte, len(b))
	for i := 0; i < len(b); i += stride {
		for m := 0; m < 3; m++ {
			copy(buf, b)
			switch m {
			case 0:
				buf[i] = 0
			case 1:
				buf[i] = 0xFF
			default:
				buf[i] ^= 1 << uint(i%8)
			}
			if buf[i] == b[i] {
				continue
			}
			di, derr, v := w.decode(buf, "single-byte corruption")
			if v != nil {
				v.Detail = fmt.Sprintf("byte %d of %d set to %#x: %s", i, len(b), buf[i], v.Detail)
				return v
			}
			w.out.Count("exhaustive_cases", 1)
			if derr == nil && !sameStrings(indexDigest(di, w.strip), want) {
				accepted++
			}
		}
	}
	if w.c.Family == "exhaustive" || stride == 7 {
		if v := w.enumeratePayload(b); v != nil {
			return v
		}
	}
	w.out.Count("silently_accepted_corruptions", int64(accepted))
	w.out.Count("fault.enumerated_prefixes", int64(len(b)))
	w.out.Count("fault.enumerated_byte_corruptions", int64(3*((len(b)+stride-1)/stride)))
	w.out.Nontrivial = true
	if stride == 1 {
		w.out.Count("exhaustive_images", 1)
	}
	w.states["enumerated:"+bucket(len(b)/1000)] = true
	return nil
}

// enumeratePayload samples the corrupted files whose inflate step succeeds: the
// uncompressed payload of the cache is truncated at every length and corrupted byte by byte
// (0x00, 0xFF, one bit, +1; strided above 300 positions), re-compressed and decoded. This
// reaches every length/count field of the format directly, which single-byte damage of the
// compressed file only does by chance.
func (w *ixWorld) enumeratePayload(b []byte) *kernel.Violation {
	zr, err := gzip.NewReader(bytes.NewReader(b))
	if err != nil {
		return nil
	}
	payload, err := io.ReadAll(zr)
	if err != nil || len(payload) == 0 {
		return nil
	}
	pack := func(p []byte) []byte {
		var buf bytes.Buffer
		zw, _ := gzip.NewWriterLevel(&buf, gzip.BestSpeed)
		zw.Write(p)
		zw.Close()
		return buf.Bytes()
	}
	stride := 1
	if len(payload) > 300 {
		stride = len(payload)/300 + 1
	}
	n := 0
	for l := 0; l < len(payload); l += stride {
		if _, _, v := w.decode(pack(payload[:l]), "truncated payload"); v != nil {
			v.Detail = fmt.Sprintf("uncompressed payload cut at %d of %d bytes: %s", l, len(payload), v.Detail)
			return v
		}
		n++
	}
	// the first 64 bytes (version, count, first entry header) and every length-looking field densely
	mut := make([]byte, len(payload))
	for i := 0; i < len(payload); i++ {
		if i >= 64 && i%stride != 0 {
			continue
		}
		for m := 0; m < 4; m++ {
			copy(mut, payload)
			switch m {
			case 0:
				mut[i] = 0
			case 1:
				mut[i] = 0xFF
			case 2:
				mut[i] ^= 1 << uint(i%8)
			default:
				mut[i]++
			}
			if mut[i] == payload[i] {
				continue
			}
			if _, _, v := w.decode(pack(mut), "corrupted payload"); v != nil {
				v.Detail = fmt.Sprintf("uncompressed payload byte %d of %d set to %#x: %s", i, len(payload), mut[i], v.Detail)
				return v
			}
			n++
		}
	}
	// every prefix of the first entries as a self-consistent file (length field adjusted): the
	// entry parser then sees its input end inside every field of every footprint
	off := 6
	for e := 0; e < 2 && off+4 <= len(payload); e++ {
		size := int(binary.BigEndian.Uint32(payload[off:]))
		data := payload[off+4:]
		if size > len(data) {
			break
		}
		limit := size
		if limit > 3000 {
			limit = 3000
		}
		for k := 0; k < limit; k++ {
			p := make([]byte, 0, 10+k)
			p = append(p, payload[:2]...)
			p = append(p, 0, 0, 0, 1)
			p = append(p, byte(k>>24), byte(k>>16), byte(k>>8), byte(k))
			p = append(p, data[:k]...)
			if _, _, v := w.decode(pack(p), "entry cut short"); v != nil {
				v.Detail = fmt.Sprintf("index entry %d cut to its first %d of %d bytes (length field adjusted): %s", e, k, size, v.Detail)
				return v
			}
			n++
		}
		off += 4 + size
	}
	w.out.Count("fault.enumerated_payload_corruptions", int64(n))
	return nil
}

func fillString(n int, salt int) string {
	b := make([]byte, n)
	for i := range b {
		b[i] = byte('a' + (i*7+salt)%26)
	}
	if n > 0 {
		b[0] = '/'
	}
	return string(b)
}

// runSynthetic is oracle 1 on synthetic indexes (empty sets, 255 scripts, maximal
// strings, extreme stamps, NaN aspects), plus optional enumeration.
func (w *ixWorld) runSynthetic() (*kernel.Violation, error) {
	var entries []fontscan.VerifFileEntry
	for i, se := range w.c.Synth {
		e := fontscan.VerifFileEntry{Path: fillString(se.PathLen, i), ModTime: se.ModTime}
		for j, sf := range se.Footprints {
			fp := fontscan.Footprint{Family: fillString(sf.FamilyLen, j+3)}
			fp.Location = fontscan.Location{File: fillString(sf.FileLen, j), Index: sf.Index, Instance: sf.Instance}
			for _, r := range sf.Runes {
				fp.Runes.Add(r)
			}
			for k := 0; k < sf.NScripts; k++ {
				fp.Scripts = append(fp.Scripts, language.Script(0x41414141+uint32(k)*0x01010101))
			}
			fp.Langs = fontscan.LangSet(sf.Langs)
			fp.Aspect = font.Aspect{Style: font.Style(sf.Style), Weight: font.Weight(math.Float32frombits(sf.WeightBit)), Stretch: font.Stretch(math.Float32frombits(sf.StretchBt))}
			e.Footprints = append(e.Footprints, fp)
		}
		entries = append(entries, e)
	}
	for k := 0; k < w.c.Bulk; k++ {
		h := kernel.SplitMix64(w.c.BulkSalt + uint64(k))
		e := fontscan.VerifFileEntry{Path: fillString(2+int(h%61), k), ModTime: ixBase + int64(h>>20)}
		for j := int(h >> 8 % 3); j > 0; j-- {
			fp := fontscan.Footprint{Family: fillString(1+int(h>>12%23), j+k)}
			fp.Location = fontscan.Location{File: e.Path, Index: uint16(j)}
			for n := int(h >> 16 % 5); n > 0; n-- {
				fp.Runes.Add(rune(h>>24%0x2000) + rune(n)*0x101)
			}
			if h>>32%2 == 1 {
				fp.Scripts = append(fp.Scripts, language.Latin)
			}
			e.Footprints = append(e.Footprints, fp)
		}
		entries = append(entries, e)
	}
	if w.c.Bulk > 0 {
		w.out.Count("probe.synthetic_index_bulk", 1)
	}
	idx := fontscan.VerifMakeIndex(entries)
	var buf bytes.Buffer
	var serr error
	res := protect(func() { serr = fontscan.VerifSerializeIndex(idx, &buf) })
	if res.panicked {
		return &kernel.Violation{Oracle: "round-trip", Site: "serialize:panic:" + res.site, Detail: fmt.Sprintf("serializeTo panicked on a synthetic index: %s at %s", res.val, res.where)}, nil
	}
	if serr != nil {
		return &kernel.Violation{Oracle: "round-trip", Site: "serialize:error", Detail: "serializeTo failed on a bytes.Buffer: " + serr.Error()}, nil
	}
	di, derr, v := w.decode(buf.Bytes(), "synthetic")
	if v != nil {
		return v, nil
	}
	if derr != nil {
		return &kernel.Violation{Oracle: "round-trip", Site: "synthetic:unreadable", Detail: "a freshly serialized synthetic index does not decode: " + derr.Error()}, nil
	}
	want, got := indexDigest(idx, w.strip), indexDigest(di, w.strip)
	w.out.Count("check.round_trip", 1)
	w.out.Count("op.synthetic_roundtrip", 1)
	if len(entries) > 0 {
		w.out.Nontrivial = true
		w.out.Count("probe.synthetic_index_nonempty", 1)
	}
	w.log(strings.Join(got, "|"))
	if !sameStrings(got, want) {
		return &kernel.Violation{Oracle: "round-trip", Site: "synthetic:differs", Detail: "deserialize(serialize(I)) != I: " + diffStrings(got, want)}, nil
	}
	if w.c.Stride > 0 && buf.Len() < 6000 {
		return w.enumerate(buf.Bytes(), idx, w.c.Stride), nil
	}
	return nil, nil
}

// ------------------------------------------------------------------ shrinking

func (e *ixEngine) Shrink(raw json.RawMessage, class string, test func(json.RawMessage) bool) json.RawMessage {
	var c IXCase
	if json.Unmarshal(raw, &c) != nil {
		return raw
	}
	try := func(cand IXCase) bool {
		b, err := json.Marshal(cand)
		return err == nil && test(b)
	}
	if len(c.Steps) > 0 {
		c.Steps = kernel.DDMin(c.Steps, func(s []IXStep) bool {
			cand := c
			cand.Steps = s
			return try(cand)
		}, 300)
	}
	for c.Bulk > 0 {
		cand := c
		cand.Bulk = c.Bulk * 3 / 4
		if !try(cand) {
			break
		}
		c = cand
	}
	if len(c.Synth) > 0 {
		c.Synth = kernel.DDMin(c.Synth, func(s []SynthEntry) bool {
			cand := c
			cand.Synth = s
			return try(cand)
		}, 60)
		for i := range c.Synth {
			fps := kernel.DDMin(c.Synth[i].Footprints, func(f []SynthFootprint) bool {
				cand := c
				cand.Synth = append([]SynthEntry(nil), c.Synth...)
				cand.Synth[i].Footprints = f
				return try(cand)
			}, 40)
			c.Synth[i].Footprints = fps
		}
	}
	if len(c.Roots) > 1 {
		cand := c
		cand.Roots = []string{""}
		if try(cand) {
			c = cand
		}
	}
	b, err := json.Marshal(c)
	if err != nil {
		return raw
	}
	return b
}
