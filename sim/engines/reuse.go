package engines

// Engine `reuse` (property C13): seeded operation histories on long-lived,
// reusable objects — shaping.HarfbuzzShaper, harfbuzz.Buffer, font.Face,
// shaping.Segmenter, shaping.LineWrapper, segmenter.Segmenter — checked
// operation by operation against a freshly constructed object (the stateless
// reference model), plus retention of earlier results until their documented
// invalidation point.

import (
	"encoding/json"
	"fmt"
	"sort"
	"strings"

	"github.com/go-text/typesetting/di"
	"github.com/go-text/typesetting/font"
	ot "github.com/go-text/typesetting/font/opentype"
	"github.com/go-text/typesetting/harfbuzz"
	"github.com/go-text/typesetting/language"
	"github.com/go-text/typesetting/segmenter"
	"github.com/go-text/typesetting/shaping"
	"golang.org/x/image/math/fixed"

	"verifsim/corpus"
	"verifsim/kernel"
)

func init() { register("reuse", func() kernel.Engine { return &reuseEngine{} }) }

type reuseEngine struct{}

func (*reuseEngine) Name() string     { return "reuse" }
func (*reuseEngine) Property() string { return "C13" }

// FeatSpec is a font feature setting; Start/End are used by the harfbuzz.Buffer ops only.
type FeatSpec struct {
	Tag   string `json:"tag"`
	Val   uint32 `json:"val"`
	Start int    `json:"start,omitempty"`
	End   int    `json:"end,omitempty"` // 0 means global end
}

// WrapCfg mirrors shaping.WrapConfig as data.
type WrapCfg struct {
	Dir           uint8 `json:"dir"`
	TruncAfter    int   `json:"trunc_after,omitempty"`
	Truncator     bool  `json:"truncator,omitempty"`
	TextContinues bool  `json:"text_continues,omitempty"`
	Policy        uint8 `json:"policy,omitempty"`
	DisableTrim   bool  `json:"disable_trim,omitempty"`
}

// ReuseOp is one operation of a history. Kinds:
//
//	shape      HarfbuzzShaper.Shape on pool face F
//	cachesize  HarfbuzzShaper.SetFontCacheSize(N)
//	facevar / facecoords / faceppem   in-place change of pool face F
//	faceq      extent/advance/outline queries on pool face F
//	hbshape    harfbuzz.Buffer Clear+AddRunes+Shape on the reused buffer
//	split      shaping.Segmenter.Split
//	wrap       LineWrapper.WrapParagraph
//	prepare    LineWrapper.Prepare ; nextline  LineWrapper.WrapNextLine(N)
//	uinit / uiter / unext   segmenter.Segmenter Init, iterator creation, Next
type ReuseOp struct {
	K      string       `json:"k"`
	F      int          `json:"f,omitempty"`
	Text   string       `json:"text,omitempty"`
	S      int          `json:"s,omitempty"`
	E      int          `json:"e,omitempty"`
	Dir    uint8        `json:"dir,omitempty"`
	Size   int          `json:"size,omitempty"`
	Feats  []FeatSpec   `json:"feats,omitempty"`
	Script uint32       `json:"script,omitempty"`
	Lang   string       `json:"lang,omitempty"`
	N      int          `json:"n,omitempty"`
	Vars   []VarSetting `json:"vars,omitempty"`
	Coords []int16      `json:"coords,omitempty"`
	PX     uint16       `json:"px,omitempty"`
	PY     uint16       `json:"py,omitempty"`
	Gids   []uint32     `json:"gids,omitempty"`
	Faces  []int        `json:"faces,omitempty"`
	FM     int          `json:"fm,omitempty"`
	Cfg    *WrapCfg     `json:"cfg,omitempty"`
	Flags  uint16       `json:"flags,omitempty"`
	CL     uint8        `json:"cl,omitempty"`
	Iter   int          `json:"iter,omitempty"`
}

// ReuseCase is one run: a face pool and a history.
type ReuseCase struct {
	Faces   []FaceSpec `json:"faces"`
	InPlace bool       `json:"in_place"` // in-place face mutation enabled (font cache stays 0)
	Ops     []ReuseOp  `json:"ops"`
}

// ------------------------------------------------------------------ generation

func pickFaceSpecs(r *kernel.Rand) []FaceSpec {
	var specs []FaceSpec
	all := corpus.Files()
	nFonts := r.Range(1, 4)
	for i := 0; i < nFonts; i++ {
		var file string
		switch r.Weighted([]int{5, 3, 2, 2, 2}) {
		case 4:
			// AAT fonts: morx (one of them with a 'feat' table mapping OpenType tags), trak, feat
			// (not the insertion-heavy morx test fonts: shaping 200 runes with them takes a minute)
			file = kernel.Pick(r, []string{"ot:collections/Courier.dfont", "ot:collections/Courier.dfont", "ot:collections/Courier.dfont", "hb:fonts/aat-morx.ttf", "ot:toys/Trak.ttf", "ot:toys/Feat.ttf"})
		case 0:
			file = kernel.Pick(r, corpus.Variable)
		case 1:
			file = kernel.Pick(r, corpus.Common)
		case 2:
			file = kernel.Pick(r, corpus.Bitmap)
		default:
			file = kernel.Pick(r, all)
			// the morx insertion test fonts make shaping 200 runes take a minute, for fresh and
			// reused objects alike (§11.2): they only turn runs into wall-clock timeouts
			for strings.Contains(file, "MORXThirty") || strings.Contains(file, "morx/Thirty") {
				file = kernel.Pick(r, all)
			}
		}
		fonts := corpus.Fonts(file)
		if len(fonts) == 0 {
			i--
			continue
		}
		idx := r.Intn(len(fonts))
		ft := fonts[idx]
		nFaces := 1
		if r.Chance(0.6) {
			nFaces = r.Range(2, 3) // several faces of the same parsed font
		}
		axes := axisCount(ft)
		for j := 0; j < nFaces; j++ {
			sp := FaceSpec{File: file, Index: idx}
			if axes > 0 && (j > 0 || r.Chance(0.5)) {
				sp.Vars = genVars(r)
			}
			if len(ft.BitmapSizes()) > 0 && (j > 0 || r.Chance(0.5)) {
				bs := kernel.Pick(r, ft.BitmapSizes())
				sp.PpemX, sp.PpemY = bs.XPpem, bs.YPpem
				if r.Chance(0.3) {
					sp.PpemX, sp.PpemY = uint16(r.Range(1, 200)), uint16(r.Range(1, 200))
				}
			}
			specs = append(specs, sp)
		}
	}
	return specs
}

var axisTags = []string{"wght", "wdth", "opsz", "slnt", "ital", "CNTR", "FLAR", "VOLM", "TEST"}

func genVars(r *kernel.Rand) []VarSetting {
	var out []VarSetting
	for i := r.Range(1, 3); i > 0; i-- {
		v := VarSetting{Tag: kernel.Pick(r, axisTags)}
		switch r.Intn(4) {
		case 0:
			v.Value = float32(r.Range(-100, 1100))
		case 1:
			v.Value = 100000 // clamps to the maximum
		case 2:
			v.Value = -100000 // clamps to the minimum
		default:
			v.Value = float32(r.Range(1, 999))
		}
		out = append(out, v)
	}
	return out
}

func genFeats(r *kernel.Rand, ranges bool, n int) []FeatSpec {
	if r.Chance(0.6) {
		return nil
	}
	var out []FeatSpec
	for i := r.Range(1, 3); i > 0; i-- {
		f := FeatSpec{Tag: kernel.Pick(r, someFeatures), Val: uint32(r.Intn(3))}
		if ranges && r.Chance(0.4) {
			f.Start = r.Intn(n + 1)
			f.End = f.Start + r.Intn(n+2)
		}
		out = append(out, f)
	}
	return out
}

var sizes = []int{0, 1, 64, 8 * 64, 12 * 64, 16*64 + 32, 20 * 64, 72 * 64, 1000 * 64}

func genBounds(r *kernel.Rand, n int) (int, int) {
	if r.Chance(0.55) {
		return 0, n
	}
	a, b := r.Intn(n+1), r.Intn(n+1)
	if a > b {
		a, b = b, a
	}
	return a, b
}

func (e *reuseEngine) Generate(seed uint64, tier string, run int) (json.RawMessage, error) {
	rk := kernel.NewRand(seed, "knobs")
	rg := kernel.NewRand(seed, "gen")
	c := ReuseCase{Faces: pickFaceSpecs(rk)}
	c.InPlace = rk.Chance(0.35)
	// swarm: which op kinds this run uses, and their weights
	kinds := []string{"shape", "cachesize", "faceq", "facevar", "facecoords", "faceppem", "hbshape", "split", "wrap", "prepare", "nextline", "uinit", "uiter", "unext"}
	weights := make([]int, len(kinds))
	for i := range kinds {
		if rk.Chance(0.6) {
			weights[i] = rk.Range(1, 6)
		}
	}
	weights[0] += 3 // shaping is the main surface
	if c.InPlace {
		weights[1] = 0
	} else {
		weights[3], weights[4], weights[5] = 0, 0, 0
		if rk.Chance(0.8) {
			weights[1] += 2
		}
	}
	models := make([]*faceModel, len(c.Faces))
	for i, sp := range c.Faces {
		m, err := modelOf(sp)
		if err != nil {
			return nil, err
		}
		models[i] = m
	}
	nOps := rk.Range(5, 60)
	if tier == "quick" {
		nOps = rk.Range(5, 40)
	}
	if !c.InPlace && rk.Chance(0.7) {
		// most cached runs enable the font cache right away
		c.Ops = append(c.Ops, ReuseOp{K: "cachesize", N: kernel.Pick(rk, []int{1, 2, 3, 8})})
	}
	maxLen := kernel.Pick(rk, []int{8, 24, 64, 200})
	lastFaceq := map[int]ReuseOp{}
	lastUinit := ""
	for len(c.Ops) < nOps {
		k := kinds[rg.Weighted(weights)]
		f := rg.Intn(len(c.Faces))
		runes := cmapRunes(models[f].ft)
		op := ReuseOp{K: k, F: f}
		if (k == "shape" || k == "hbshape") && rg.Chance(0.4) {
			// repeat an earlier call of the same kind verbatim (possibly on another face):
			// the cache-hit workload for the font cache and the shape-plan cache
			var prev []int
			for j := range c.Ops {
				if c.Ops[j].K == k {
					prev = append(prev, j)
				}
			}
			if len(prev) > 0 {
				op = c.Ops[kernel.Pick(rg, prev)]
				// ... or a variant of it in which exactly one argument differs: every argument that a
				// cache key must contain is varied alone against an otherwise identical earlier call
				switch rg.Intn(11) {
				case 10: // same tags and values, other ranges (ranges are not part of a plan, they
					// are applied per call)
					fs := append([]FeatSpec(nil), op.Feats...)
					n := len([]rune(op.Text))
					if len(fs) == 0 {
						fs = []FeatSpec{{Tag: kernel.Pick(rg, []string{"liga", "kern", "smcp", "dlig"}), Val: 1}}
					}
					for i := range fs {
						fs[i].Start = rg.Intn(n + 1)
						fs[i].End = fs[i].Start + 1 + rg.Intn(n+1)
					}
					op.Feats = fs
				case 9: // the same features in another order, a tag given twice with different values
					// (the later one wins: order is part of the meaning only then)
					fs := append([]FeatSpec(nil), op.Feats...)
					if len(fs) < 2 || rg.Chance(0.5) {
						t := kernel.Pick(rg, []string{"liga", "kern", "smcp", "calt"})
						if len(fs) > 0 && rg.Chance(0.7) {
							t = fs[rg.Intn(len(fs))].Tag
						}
						fs = append(fs, FeatSpec{Tag: t, Val: 0}, FeatSpec{Tag: t, Val: 1})
					}
					for i := len(fs) - 1; i > 0; i-- {
						j := rg.Intn(i + 1)
						fs[i], fs[j] = fs[j], fs[i]
					}
					op.Feats = fs
				case 0:
					op.F = f
				case 1: // same number of features, other value or tag
					if len(op.Feats) == 0 {
						op.Feats = []FeatSpec{{Tag: kernel.Pick(rg, someFeatures), Val: 1}}
					} else {
						fs := append([]FeatSpec(nil), op.Feats...)
						j := rg.Intn(len(fs))
						if rg.Bool() {
							fs[j].Val = (fs[j].Val + 1) % 3
						} else {
							fs[j].Tag = kernel.Pick(rg, someFeatures)
						}
						op.Feats = fs
					}
				case 2:
					op.Size = kernel.Pick(rg, sizes)
				case 3:
					if k == "shape" {
						op.Dir = kernel.Pick(rg, validDirections)
					} else {
						op.Dir = uint8(kernel.Pick(rg, []int{4, 5, 6, 7}))
					}
				case 4:
					op.Lang = kernel.Pick(rg, someLanguages)
				case 5:
					op.Script = uint32(kernel.Pick(rg, []language.Script{language.Arabic, language.Latin, language.Devanagari, language.Han, language.Cyrillic}))
				case 6:
					t := []rune(op.Text)
					if len(t) > 0 && len(runes) > 0 {
						t[rg.Intn(len(t))] = kernel.Pick(rg, runes)
						op.Text = string(t)
					}
				case 7:
					op.S, op.E = genBounds(rg, len([]rune(op.Text)))
				}
				c.Ops = append(c.Ops, op)
				continue
			}
		}
		switch k {
		case "shape":
			t := genText(rg, runes, maxLen)
			op.Text = string(t)
			op.S, op.E = genBounds(rg, len(t))
			op.Dir = kernel.Pick(rg, validDirections)
			if op.Dir&4 != 0 && op.Dir&8 == 0 && rg.Chance(0.5) {
				op.Dir &^= 4
			}
			op.Size = kernel.Pick(rg, sizes)
			op.Feats = genFeats(rg, false, 0)
			op.Script = uint32(scriptOf(t))
			if rg.Chance(0.1) {
				op.Script = uint32(kernel.Pick(rg, []language.Script{language.Arabic, language.Latin, language.Devanagari, language.Han, 0}))
			}
			op.Lang = kernel.Pick(rg, someLanguages)
		case "cachesize":
			op.N = kernel.Pick(rg, []int{0, 1, 2, 3, 8})
		case "faceq":
			for i := rg.Range(1, 8); i > 0; i-- {
				if len(runes) > 0 && rg.Chance(0.7) {
					g, _ := models[f].ft.NominalGlyph(kernel.Pick(rg, runes))
					op.Gids = append(op.Gids, uint32(g))
				} else {
					op.Gids = append(op.Gids, uint32(rg.Intn(70000)))
				}
			}
		case "facevar":
			if rg.Chance(0.15) {
				op.Vars = nil // removes the coordinates
			} else {
				op.Vars = genVars(rg)
			}
		case "facecoords":
			n := axisCount(models[f].ft)
			for i := 0; i < n; i++ {
				op.Coords = append(op.Coords, int16(kernel.Pick(rg, []int{0, 16384, -16384, 8192, rg.Range(-16384, 16384)})))
			}
		case "faceppem":
			op.PX, op.PY = uint16(rg.Range(0, 300)), uint16(rg.Range(0, 300))
			if bs := models[f].ft.BitmapSizes(); len(bs) > 0 && rg.Chance(0.6) {
				b := kernel.Pick(rg, bs)
				op.PX, op.PY = b.XPpem, b.YPpem
			}
		case "hbshape":
			t := genText(rg, runes, maxLen)
			op.Text = string(t)
			op.S, op.E = genBounds(rg, len(t))
			op.Dir = uint8(kernel.Pick(rg, []int{4, 5, 6, 7}))
			op.Script = uint32(scriptOf(t))
			op.Lang = kernel.Pick(rg, someLanguages)
			op.Flags = uint16(rg.Intn(128))
			op.CL = uint8(rg.Intn(3))
			op.Feats = genFeats(rg, true, len(t))
			op.Size = kernel.Pick(rg, []int{0, 0, 12, 1000})
		case "split", "wrap", "prepare":
			t := genText(rg, runes, maxLen)
			if rg.Chance(0.3) {
				t = append(t, genText(rg, runes, maxLen)...)
			}
			op.Text = string(t)
			op.S, op.E = 0, len(t)
			if k == "split" {
				op.S, op.E = genBounds(rg, len(t))
			}
			op.Dir = kernel.Pick(rg, validDirections)
			op.Size = kernel.Pick(rg, sizes[2:8])
			op.Lang = kernel.Pick(rg, someLanguages)
			op.FM = rg.Intn(2)
			for i := rg.Range(1, len(c.Faces)); i > 0; i-- {
				op.Faces = append(op.Faces, rg.Intn(len(c.Faces)))
			}
			if k != "split" {
				op.Dir = kernel.Pick(rg, []uint8{0, 0, 1, 2, 2 | 4, 2 | 4 | 8})
				cfg := &WrapCfg{Dir: op.Dir & 3, Policy: uint8(rg.Intn(3)), DisableTrim: rg.Chance(0.2)}
				if rg.Chance(0.4) {
					cfg.TruncAfter = rg.Range(1, 4)
					cfg.Truncator = rg.Chance(0.6)
					cfg.TextContinues = rg.Chance(0.3)
				}
				op.Cfg = cfg
				op.N = genWidth(rg)
			}
		case "nextline":
			op.N = genWidth(rg)
		case "uinit":
			op.Text = string(genText(rg, runes, maxLen))
			if n := len([]rune(lastUinit)); n > 0 && rg.Chance(0.3) {
				// same length as the previous paragraph, written into the same buffer
				t := genText(rg, runes, n)
				for len(t) < n {
					t = append(t, 'a')
				}
				op.Text, op.E = string(t[:n]), 1
			}
			lastUinit = op.Text
			if rg.Chance(0.3) {
				op.N = 1 // the caller scribbles over its slice after Init
			}
			if rg.Chance(0.5) {
				op.S = rg.Range(1, 11) // decoy
			}
		case "uiter":
			op.Iter = rg.Intn(3)
		case "unext":
			op.Iter = rg.Intn(4)
			op.N = rg.Range(1, 5)
		}
		c.Ops = append(c.Ops, op)
		switch k {
		case "prepare":
			if rg.Chance(0.35) {
				// a paragraph abandoned after one or two lines, then another one prepared on the same
				// wrapper whose first lines are narrower than its first word: whatever the breaker
				// remembered about the abandoned paragraph meets a forced break
				for i := rg.Range(1, 2); i > 0; i-- {
					c.Ops = append(c.Ops, ReuseOp{K: "nextline", F: f, N: rg.Range(40, 400)})
				}
				op2 := op
				op2.Text = string(genText(rg, runes, maxLen))
				op2.E = len([]rune(op2.Text))
				c.Ops = append(c.Ops, op2)
				for i := rg.Range(1, 3); i > 0; i-- {
					c.Ops = append(c.Ops, ReuseOp{K: "nextline", F: f, N: rg.Range(1, 60)})
				}
			}
		case "faceq":
			lastFaceq[f] = op
		case "facevar", "facecoords", "faceppem":
			// query again what was queried before the in-place change: the memoised values must be gone
			if q, ok := lastFaceq[f]; ok && rg.Chance(0.7) {
				c.Ops = append(c.Ops, q)
			}
		}
	}
	// feature sweep: the same text shaped several times on the same long-lived object with one
	// feature whose value or range moves (a rich-text editor restyling a span). The (text, tag)
	// pair is calibrated: a fresh buffer gives different glyphs with the feature on and off, so
	// whatever a cache remembered about the feature of an earlier call is visible in the result
	if rk.Chance(0.15) {
		f := rg.Intn(len(c.Faces))
		if pairs := featureSensitive(models[f].ft); len(pairs) > 0 {
			p := kernel.Pick(rg, pairs)
			t := []rune(p.Text)
			n := len(t)
			var burst []ReuseOp
			if rg.Chance(0.7) {
				base := ReuseOp{K: "hbshape", F: f, Text: p.Text, S: 0, E: n, Dir: 4, Script: uint32(scriptOf(t)), CL: uint8(rg.Intn(3))}
				val := uint32(rg.Intn(2))
				wd := 1 + n/rg.Range(2, 6)
				for i := rg.Range(3, 6); i > 0; i-- {
					op := base
					st := rg.Intn(n)
					op.Feats = []FeatSpec{{Tag: p.Tag, Val: val, Start: st, End: st + wd}}
					switch rg.Intn(6) {
					case 0:
						op.Feats[0].Start, op.Feats[0].End = 0, 0 // global
					case 1:
						val = 1 - val
					case 2:
						wd = 1 + rg.Intn(n)
					}
					burst = append(burst, op)
				}
			} else {
				base := ReuseOp{K: "shape", F: f, Text: p.Text, S: 0, E: n, Dir: 0, Script: uint32(scriptOf(t)), Size: 16 * 64}
				for i := rg.Range(3, 5); i > 0; i-- {
					op := base
					if v := rg.Intn(3); v < 2 {
						op.Feats = []FeatSpec{{Tag: p.Tag, Val: uint32(v)}}
					}
					burst = append(burst, op)
				}
			}
			at := rg.Intn(len(c.Ops) + 1)
			if at == 0 && len(c.Ops) > 0 && c.Ops[0].K == "cachesize" {
				at = 1
			}
			c.Ops = append(c.Ops[:at], append(burst, c.Ops[at:]...)...)
		}
	}
	return json.Marshal(c)
}

type sensPair struct{ Text, Tag string }

var sensCache = map[*font.Font][]sensPair{}

// featureSensitive returns (text, feature tag) pairs for which a fresh harfbuzz.Buffer gives a
// different result with the feature globally off and globally on. A pure function of the font.
func featureSensitive(ft *font.Font) []sensPair {
	if p, ok := sensCache[ft]; ok {
		return p
	}
	var out []sensPair
	texts := []string{sampleTexts[1], sampleTexts[2]}
	if rs := cmapRunes(ft); len(rs) > 0 {
		if len(rs) > 48 {
			rs = rs[:48]
		}
		texts = append(texts, string(rs))
	}
	protect(func() {
		face := font.NewFace(ft)
		for _, txt := range texts {
			t := []rune(txt)
			shape := func(tag string, val uint32) string {
				b := harfbuzz.NewBuffer()
				b.Props.Direction = harfbuzz.LeftToRight
				b.Props.Script = scriptOf(t)
				b.AddRunes(t, 0, len(t))
				b.Shape(harfbuzz.NewFont(face), []harfbuzz.Feature{{Tag: ot.MustNewTag(pad4(tag)), Value: val, Start: 0, End: harfbuzz.FeatureGlobalEnd}})
				return digestBuffer(b)
			}
			for _, tag := range someFeatures {
				if shape(tag, 0) != shape(tag, 1) {
					out = append(out, sensPair{txt, tag})
				}
			}
		}
	})
	sensCache[ft] = out
	return out
}

func genWidth(r *kernel.Rand) int {
	switch r.Weighted([]int{1, 3, 5, 3, 1}) {
	case 0:
		return 0
	case 1:
		return r.Range(1, 50)
	case 2:
		return r.Range(50, 400)
	case 3:
		return r.Range(400, 5000)
	}
	return 1 << 20
}

// ------------------------------------------------------------------ execution

type retained struct {
	group string
	desc  string
	live  func() string
	snap  string
}

type reuseWorld struct {
	c      *ReuseCase
	models []*faceModel
	faces  []*font.Face
	fn     faceNamer
	out    *kernel.Outcome

	shaper    shaping.HarfbuzzShaper
	cacheSize int
	shapedBy  map[*font.Font]int // font -> last pool face index shaped with it (probe only)

	hbuf *harfbuzz.Buffer
	seg  shaping.Segmenter

	wrap     shaping.LineWrapper
	refWrap  *shaping.LineWrapper
	prepared bool
	wrapDone bool

	us usegWorld

	retained []*retained
	// retention entries that become active after the current op (the op itself is a call on that face)
	pendingFace []func()
	trace       uint64
	states      map[string]bool
	prevKind    string
}

func (w *reuseWorld) log(s string) {
	w.trace = kernel.SplitMix64(w.trace ^ kernel.HashString(s))
}

func (w *reuseWorld) state(s string) { w.states[s] = true }

func (w *reuseWorld) probe(name string) {
	w.out.Count("probe."+name, 1)
	w.out.Nontrivial = true
}

func (e *reuseEngine) Execute(raw json.RawMessage) (*kernel.Outcome, error) {
	var c ReuseCase
	if err := json.Unmarshal(raw, &c); err != nil {
		return nil, err
	}
	return runReuse(&c)
}

func runReuse(c *ReuseCase) (*kernel.Outcome, error) {
	w := &reuseWorld{c: c, fn: faceNamer{}, out: &kernel.Outcome{}, shapedBy: map[*font.Font]int{}, states: map[string]bool{}}
	if len(c.Faces) == 0 {
		return w.out, nil
	}
	for i, sp := range c.Faces {
		m, err := modelOf(sp)
		if err != nil {
			return nil, err
		}
		w.models = append(w.models, m)
		f := m.newFace()
		w.faces = append(w.faces, f)
		w.fn[f] = fmt.Sprintf("F%d", i)
	}
	w.us.init()
	for i := range c.Ops {
		op := &c.Ops[i]
		w.out.Count("op."+op.K, 1)
		if w.prevKind != "" {
			w.state("pair:" + w.prevKind + ">" + op.K)
		}
		w.prevKind = op.K
		// any call that may reach a face is that face's invalidation point
		switch op.K {
		case "split", "wrap", "prepare", "nextline":
			for j := range w.faces {
				w.invalidate(fmt.Sprintf("face%d", j))
			}
		case "shape", "hbshape", "faceq", "facevar", "facecoords", "faceppem":
			w.invalidate(fmt.Sprintf("face%d", w.face(op.F)))
		}
		v := w.exec(op)
		for _, f := range w.pendingFace {
			f()
		}
		w.pendingFace = nil
		if v == nil {
			v = w.checkRetained(i)
		}
		if v != nil {
			v.Detail = fmt.Sprintf("op #%d (%s): %s", i, op.K, v.Detail)
			w.out.Violation = v
			break
		}
	}
	w.out.Trace = w.trace
	for s := range w.states {
		w.out.States = append(w.out.States, s)
	}
	sort.Strings(w.out.States)
	return w.out, nil
}

func (w *reuseWorld) checkRetained(opIdx int) *kernel.Violation {
	for _, r := range w.retained {
		var now string
		res := protect(func() { now = r.live() })
		if res.panicked {
			return &kernel.Violation{Oracle: "retention", Site: r.group + ":panic", Detail: fmt.Sprintf("re-reading %s panicked: %s at %s", r.desc, res.val, res.where)}
		}
		if now != r.snap {
			return &kernel.Violation{Oracle: "retention", Site: r.group,
				Detail: fmt.Sprintf("%s changed before its invalidation point: %s", r.desc, firstDiff(now, r.snap))}
		}
		w.out.Count("check.retention", 1)
	}
	return nil
}

func (w *reuseWorld) invalidate(group string) {
	k := w.retained[:0]
	for _, r := range w.retained {
		if r.group != group {
			k = append(k, r)
		}
	}
	w.retained = k
}

func (w *reuseWorld) retain(group, desc string, live func() string, max int) {
	r := &retained{group: group, desc: desc, live: live}
	r.snap = live()
	w.retained = append(w.retained, r)
	// bound the cost: keep at most max items per group (oldest dropped)
	n := 0
	for _, x := range w.retained {
		if x.group == group {
			n++
		}
	}
	if n > max {
		for i, x := range w.retained {
			if x.group == group {
				w.retained = append(w.retained[:i], w.retained[i+1:]...)
				break
			}
		}
	}
}

func clampBounds(s, e, n int) (int, int) {
	if s < 0 {
		s = 0
	}
	if e < 0 {
		e = 0
	}
	if s > n {
		s = n
	}
	if e > n {
		e = n
	}
	if e < s {
		s, e = e, s
	}
	return s, e
}

func toFontFeatures(fs []FeatSpec) []shaping.FontFeature {
	if len(fs) == 0 {
		return nil
	}
	out := make([]shaping.FontFeature, len(fs))
	for i, f := range fs {
		out[i] = shaping.FontFeature{Tag: ot.MustNewTag(pad4(f.Tag)), Value: f.Val}
	}
	return out
}

// reused runs the call on the object under test (skipped in reference-only mode).
func reused(f func()) callResult {
	if kernel.ReferenceOnly {
		return callResult{}
	}
	return protect(f)
}

// compare is the common reused-vs-fresh verdict.
func compare(kind string, r1, r2 callResult, got, want, cat string) *kernel.Violation {
	if kernel.ReferenceOnly {
		return nil
	}
	switch {
	case r1.panicked && !r2.panicked:
		return &kernel.Violation{Oracle: "fresh-equivalence", Site: kind + ":panic:" + r1.site,
			Detail: fmt.Sprintf("reused object panicked (%s at %s), fresh object did not", r1.val, r1.where)}
	case !r1.panicked && r2.panicked:
		return &kernel.Violation{Oracle: "fresh-equivalence", Site: kind + ":fresh-panic:" + r2.site,
			Detail: fmt.Sprintf("fresh object panicked (%s at %s), reused object did not", r2.val, r2.where)}
	case r1.panicked && r2.panicked:
		return nil // shared panic: not a reuse matter (counted by the caller)
	}
	if got != want && !kernel.ReferenceOnly {
		if cat == "" {
			cat = "result"
		}
		return &kernel.Violation{Oracle: "fresh-equivalence", Site: kind + ":" + cat,
			Detail: "reused object differs from fresh object: " + firstDiff(got, want)}
	}
	return nil
}

func (w *reuseWorld) face(i int) int {
	if i < 0 {
		i = -i
	}
	return i % len(w.faces)
}

func (w *reuseWorld) exec(op *ReuseOp) *kernel.Violation {
	switch op.K {
	case "shape":
		return w.opShape(op)
	case "cachesize":
		if w.c.InPlace {
			return nil
		}
		w.shaper.SetFontCacheSize(op.N)
		w.cacheSize = op.N
		w.state(fmt.Sprintf("cache=%d", op.N))
		w.log(fmt.Sprintf("cachesize %d", op.N))
	case "facevar":
		if !w.c.InPlace {
			return nil
		}
		i := w.face(op.F)
		w.faces[i].SetVariations(toVariations(op.Vars))
		w.models[i].mode, w.models[i].vars, w.models[i].coords = 1, op.Vars, nil
		if len(op.Vars) == 0 {
			w.models[i].mode = 0
		}
		w.probe("face_mutated_in_place")
	case "facecoords":
		if !w.c.InPlace {
			return nil
		}
		i := w.face(op.F)
		if n := axisCount(w.models[i].ft); n != len(op.Coords) {
			return nil // wrong arity for this font (case was edited by the shrinker)
		}
		cs := make([]font.VarCoord, len(op.Coords))
		for j, c := range op.Coords {
			cs[j] = font.VarCoord(c)
		}
		w.faces[i].SetCoords(append([]font.VarCoord(nil), cs...))
		w.models[i].mode, w.models[i].coords, w.models[i].vars = 2, cs, nil
		w.probe("face_mutated_in_place")
	case "faceppem":
		if !w.c.InPlace {
			return nil
		}
		i := w.face(op.F)
		w.faces[i].SetPpem(op.PX, op.PY)
		w.models[i].px, w.models[i].py = op.PX, op.PY
		w.probe("face_mutated_in_place")
	case "faceq":
		return w.opFaceQuery(op)
	case "hbshape":
		return w.opHbShape(op)
	case "split":
		return w.opSplit(op)
	case "wrap":
		return w.opWrap(op)
	case "prepare":
		return w.opPrepare(op)
	case "nextline":
		return w.opNextLine(op)
	case "uinit", "uiter", "unext":
		return w.us.exec(op, w.out, &w.trace)
	}
	return nil
}

// ---- HarfbuzzShaper

func (w *reuseWorld) opShape(op *ReuseOp) *kernel.Violation {
	i := w.face(op.F)
	text := []rune(op.Text)
	s, e := clampBounds(op.S, op.E, len(text))
	mk := func(face *font.Face) shaping.Input {
		return shaping.Input{
			Text: copyRunes(text), RunStart: s, RunEnd: e, Direction: di.Direction(op.Dir), Face: face,
			FontFeatures: toFontFeatures(op.Feats), Size: fixed.Int26_6(op.Size),
			Script: language.Script(op.Script), Language: language.NewLanguage(op.Lang),
		}
	}
	ft := w.models[i].ft
	if prev, ok := w.shapedBy[ft]; ok && w.cacheSize > 0 {
		w.probe("shaper_cache_font_seen_before")
		if prev != i {
			w.probe("shaper_cache_other_face_of_same_font")
		}
	}
	if len(w.shapedBy) > w.cacheSize && w.cacheSize > 0 {
		w.probe("shaper_cache_eviction_possible")
	}
	w.shapedBy[ft] = i
	if w.c.InPlace && w.models[i].mode != 0 {
		w.probe("shape_after_in_place_face_change")
	}

	var got, want shaping.Output
	r1 := reused(func() { got = w.shaper.Shape(mk(w.faces[i])) })
	clone := w.models[i].newFace()
	w.fn[clone] = w.fn[w.faces[i]]
	r2 := protect(func() { want = (&shaping.HarfbuzzShaper{}).Shape(mk(clone)) })
	var dg, dw string
	if !r1.panicked {
		dg = digestOutput(&got, w.fn)
	}
	if !r2.panicked {
		dw = digestOutput(&want, w.fn)
	}
	fnw := faceNamer{clone: w.fn[clone]}
	delete(w.fn, clone)
	if r1.panicked && r2.panicked {
		w.out.Count("shared_panic.shape", 1)
	}
	w.log("shape " + dg)
	w.out.Count("check.fresh", 1)
	if v := compare("shape", r1, r2, dg, dw, outputDiff(&got, &want, w.fn, fnw)); v != nil {
		return v
	}
	if !r1.panicked {
		live := got
		w.retain("shape", fmt.Sprintf("Output of an earlier Shape (%d glyphs)", len(got.Glyphs)),
			func() string { return digestOutput(&live, w.fn) }, 6)
	}
	return nil
}

// ---- font.Face

func digestFaceQueries(f *font.Face, gids []uint32) string {
	var sb strings.Builder
	for _, g := range gids {
		gid := font.GID(g)
		ext, ok := f.GlyphExtents(gid)
		fmt.Fprintf(&sb, "g%d{ext=%v,%v hadv=%v vadv=%v", g, ext, ok, f.HorizontalAdvance(gid), f.VerticalAdvance(gid))
		x, y, okv := f.GlyphVOrigin(gid)
		fmt.Fprintf(&sb, " vorig=%d,%d,%v", x, y, okv)
		switch d := f.GlyphData(gid).(type) {
		case font.GlyphOutline:
			h := uint64(0)
			for _, s := range d.Segments {
				h = kernel.SplitMix64(h ^ kernel.HashString(fmt.Sprint(s)))
			}
			fmt.Fprintf(&sb, " outline=%d/%x", len(d.Segments), h)
		case font.GlyphBitmap:
			fmt.Fprintf(&sb, " bitmap=%dx%d/%d/%x", d.Width, d.Height, d.Format, kernel.HashBytes(d.Data))
		case font.GlyphSVG:
			fmt.Fprintf(&sb, " svg=%x", kernel.HashBytes(d.Source))
		case nil:
			sb.WriteString(" nodata")
		}
		sb.WriteString("}")
	}
	he, ok1 := f.FontHExtents()
	ve, ok2 := f.FontVExtents()
	fmt.Fprintf(&sb, " hext=%v,%v vext=%v,%v", he, ok1, ve, ok2)
	for m := font.LineMetric(0); m < 6; m++ {
		fmt.Fprintf(&sb, " lm%d=%v", m, f.LineMetric(m))
	}
	px, py := f.Ppem()
	fmt.Fprintf(&sb, " ppem=%d,%d coords=%v", px, py, f.Coords())
	return sb.String()
}

func digestGlyphData(d font.GlyphData) string {
	switch d := d.(type) {
	case font.GlyphOutline:
		h := uint64(0)
		for _, s := range d.Segments {
			h = kernel.SplitMix64(h ^ kernel.HashString(fmt.Sprint(s)))
		}
		return fmt.Sprintf("outline=%d/%x", len(d.Segments), h)
	case font.GlyphBitmap:
		return fmt.Sprintf("bitmap=%dx%d/%d/%x", d.Width, d.Height, d.Format, kernel.HashBytes(d.Data))
	case font.GlyphSVG:
		return fmt.Sprintf("svg=%x", kernel.HashBytes(d.Source))
	}
	return "nodata"
}

func (w *reuseWorld) opFaceQuery(op *ReuseOp) *kernel.Violation {
	i := w.face(op.F)
	var got, want string
	// glyph data returned by this face must stay intact while OTHER objects are used
	// (until the next call on the same face, the invalidation point the property names)
	if !kernel.ReferenceOnly && len(op.Gids) > 0 {
		var keep []font.GlyphData
		res := protect(func() {
			for _, g := range op.Gids[:1] {
				keep = append(keep, w.faces[i].GlyphData(font.GID(g)))
			}
		})
		if !res.panicked && len(keep) > 0 && keep[0] != nil {
			group := fmt.Sprintf("face%d", i)
			w.invalidate(group)
			w.pendingFace = append(w.pendingFace, func() {
				w.retain(group, fmt.Sprintf("GlyphData returned by face %d", i), func() string { return digestGlyphData(keep[0]) }, 1)
			})
		}
	}
	r1 := reused(func() { got = digestFaceQueries(w.faces[i], op.Gids) })
	clone := w.models[i].newFace()
	r2 := protect(func() { want = digestFaceQueries(clone, op.Gids) })
	if r1.panicked && r2.panicked {
		w.out.Count("shared_panic.faceq", 1)
	}
	w.log("faceq " + got)
	w.out.Count("check.fresh", 1)
	if w.models[i].mode != 0 || w.models[i].px != 0 {
		w.state(fmt.Sprintf("faceq:mode=%d,ppem=%v", w.models[i].mode, w.models[i].px != 0))
	}
	return compare("faceq", r1, r2, got, want, "")
}

// ---- harfbuzz.Buffer

func digestBuffer(b *harfbuzz.Buffer) string {
	var sb strings.Builder
	for i := range b.Info {
		fmt.Fprintf(&sb, "{g=%d c=%d m=%d", b.Info[i].Glyph, b.Info[i].Cluster, b.Info[i].Mask)
		if i < len(b.Pos) {
			p := b.Pos[i]
			fmt.Fprintf(&sb, " xa=%d xo=%d ya=%d yo=%d", p.XAdvance, p.XOffset, p.YAdvance, p.YOffset)
		}
		sb.WriteString("}")
	}
	return sb.String()
}

func (w *reuseWorld) opHbShape(op *ReuseOp) *kernel.Violation {
	i := w.face(op.F)
	text := []rune(op.Text)
	s, e := clampBounds(op.S, op.E, len(text))
	feats := func() []harfbuzz.Feature {
		var out []harfbuzz.Feature
		for _, f := range op.Feats {
			hf := harfbuzz.Feature{Tag: ot.MustNewTag(pad4(f.Tag)), Value: f.Val, Start: f.Start, End: f.End}
			if f.End == 0 {
				hf.End = harfbuzz.FeatureGlobalEnd
			}
			out = append(out, hf)
		}
		return out
	}
	run := func(b *harfbuzz.Buffer, face *font.Face) {
		b.Props.Direction = harfbuzz.Direction(op.Dir)
		b.Props.Script = language.Script(op.Script)
		b.Props.Language = language.NewLanguage(op.Lang)
		b.Flags = harfbuzz.ShappingOptions(op.Flags)
		b.ClusterLevel = harfbuzz.ClusterLevel(op.CL % 3)
		b.AddRunes(copyRunes(text), s, e-s)
		ft := harfbuzz.NewFont(face)
		if op.Size != 0 {
			ft.XScale, ft.YScale = int32(op.Size)*64, int32(op.Size)*64
			ft.Ptem = float32(op.Size)
		}
		b.Shape(ft, feats())
	}
	if w.hbuf == nil {
		w.hbuf = harfbuzz.NewBuffer()
	} else {
		w.probe("hb_buffer_reused")
	}
	var got, want string
	r1 := reused(func() { w.hbuf.Clear(); run(w.hbuf, w.faces[i]); got = digestBuffer(w.hbuf) })
	clone := w.models[i].newFace()
	r2 := protect(func() { b := harfbuzz.NewBuffer(); run(b, clone); want = digestBuffer(b) })
	if r1.panicked && r2.panicked {
		w.out.Count("shared_panic.hbshape", 1)
	}
	w.log("hbshape " + got)
	w.out.Count("check.fresh", 1)
	return compare("hbshape", r1, r2, got, want, "")
}

// ---- shaping.Segmenter

type sliceFontmap []*font.Face

func (ff sliceFontmap) ResolveFace(r rune) *font.Face {
	for _, f := range ff {
		if _, has := f.NominalGlyph(r); has {
			return f
		}
	}
	return ff[0]
}

// scriptFontmap is a FontmapScript whose answers depend on the last SetScript.
type scriptFontmap struct {
	faces []*font.Face
	start int
}

func (sf *scriptFontmap) SetScript(s language.Script) {
	sf.start = int(uint32(s) % uint32(len(sf.faces)))
}
func (sf *scriptFontmap) ResolveFace(r rune) *font.Face {
	n := len(sf.faces)
	for k := 0; k < n; k++ {
		f := sf.faces[(sf.start+k)%n]
		if _, has := f.NominalGlyph(r); has {
			return f
		}
	}
	return sf.faces[sf.start%n]
}

func (w *reuseWorld) fontmap(op *ReuseOp) shaping.Fontmap {
	var fs []*font.Face
	for _, i := range op.Faces {
		fs = append(fs, w.faces[w.face(i)])
	}
	if len(fs) == 0 {
		fs = append(fs, w.faces[w.face(op.F)])
	}
	if op.FM%2 == 1 {
		return &scriptFontmap{faces: fs}
	}
	return sliceFontmap(fs)
}

func (w *reuseWorld) splitInput(op *ReuseOp) shaping.Input {
	text := []rune(op.Text)
	s, e := clampBounds(op.S, op.E, len(text))
	return shaping.Input{
		Text: text, RunStart: s, RunEnd: e, Direction: di.Direction(op.Dir),
		FontFeatures: toFontFeatures(op.Feats), Size: fixed.Int26_6(op.Size), Language: language.NewLanguage(op.Lang),
	}
}

func (w *reuseWorld) opSplit(op *ReuseOp) *kernel.Violation {
	w.invalidate("split")
	var got, want []shaping.Input
	var dg, dw string
	r1 := reused(func() { got = w.seg.Split(w.splitInput(op), w.fontmap(op)); dg = digestInputs(got, w.fn) })
	r2 := protect(func() {
		want = (&shaping.Segmenter{}).Split(w.splitInput(op), w.fontmap(op))
		dw = digestInputs(want, w.fn)
	})
	if r1.panicked && r2.panicked {
		w.out.Count("shared_panic.split", 1)
	}
	w.log("split " + dg)
	w.out.Count("check.fresh", 1)
	if w.out.Counters["op.split"] > 1 {
		w.probe("segmenter_reused")
	}
	if v := compare("split", r1, r2, dg, dw, inputsDiff(got, want, w.fn)); v != nil {
		return v
	}
	if !r1.panicked {
		live := got
		w.retain("split", "[]Input of the last Split", func() string { return digestInputs(live, w.fn) }, 1)
	}
	return nil
}

// ---- shaping.LineWrapper

type paragraph struct {
	text      []rune
	runs      []shaping.Output
	cfg       shaping.WrapConfig
	truncator shaping.Output
}

func copyOutputs(runs []shaping.Output) []shaping.Output {
	out := make([]shaping.Output, len(runs))
	for i, r := range runs {
		out[i] = r
		out[i].Glyphs = append([]shaping.Glyph(nil), r.Glyphs...)
	}
	return out
}

// buildParagraph itemizes and shapes a text with fresh objects (they are not
// under test here) and returns the runs to be handed, as copies, to the wrappers.
func (w *reuseWorld) buildParagraph(op *ReuseOp) (p paragraph, ok bool) {
	res := protect(func() {
		in := w.splitInput(op)
		in.RunStart, in.RunEnd = 0, len(in.Text)
		p.text = in.Text
		var sh shaping.HarfbuzzShaper
		for _, run := range (&shaping.Segmenter{}).Split(in, w.fontmap(op)) {
			if run.Face == nil {
				continue
			}
			p.runs = append(p.runs, sh.Shape(run))
		}
		cfg := op.Cfg
		if cfg == nil {
			cfg = &WrapCfg{}
		}
		p.cfg = shaping.WrapConfig{
			Direction: di.Direction(cfg.Dir), TruncateAfterLines: cfg.TruncAfter, TextContinues: cfg.TextContinues,
			BreakPolicy: shaping.LineBreakPolicy(cfg.Policy % 3), DisableTrailingWhitespaceTrim: cfg.DisableTrim,
		}
		if cfg.Truncator {
			face := w.faces[w.face(op.F)]
			if len(p.runs) > 0 {
				face = p.runs[0].Face
			}
			p.cfg.Truncator = (&shaping.HarfbuzzShaper{}).Shape(shaping.Input{
				Text: []rune("…"), RunEnd: 1, Face: face, Size: fixed.Int26_6(op.Size), Direction: di.Direction(cfg.Dir),
				Script: language.Common, Language: "en",
			})
		}
	})
	if res.panicked {
		w.out.Count("shared_panic.paragraph_build", 1)
		return p, false
	}
	return p, true
}

func (p *paragraph) config() shaping.WrapConfig {
	c := p.cfg
	c.Truncator.Glyphs = append([]shaping.Glyph(nil), p.cfg.Truncator.Glyphs...)
	return c
}

func (w *reuseWorld) opWrap(op *ReuseOp) *kernel.Violation {
	p, ok := w.buildParagraph(op)
	if !ok {
		return nil
	}
	w.invalidate("wrap")
	if w.prepared && !w.wrapDone {
		w.probe("wrapper_paragraph_abandoned")
	}
	w.prepared, w.refWrap = false, nil
	if w.out.Counters["op.wrap"]+w.out.Counters["op.prepare"] > 1 {
		w.probe("wrapper_reused")
	}
	var got, want []shaping.Line
	var tg, tw int
	var dg, dw string
	r1 := reused(func() {
		got, tg = w.wrap.WrapParagraph(p.config(), op.N, copyRunes(p.text), shaping.NewSliceIterator(copyOutputs(p.runs)))
		dg = fmt.Sprintf("trunc=%d\n%s", tg, digestLines(got, w.fn))
	})
	r2 := protect(func() {
		want, tw = (&shaping.LineWrapper{}).WrapParagraph(p.config(), op.N, copyRunes(p.text), shaping.NewSliceIterator(copyOutputs(p.runs)))
		dw = fmt.Sprintf("trunc=%d\n%s", tw, digestLines(want, w.fn))
	})
	if r1.panicked && r2.panicked {
		w.out.Count("shared_panic.wrap", 1)
	}
	w.log("wrap " + dg)
	w.out.Count("check.fresh", 1)
	w.state(fmt.Sprintf("wrap:lines=%s,runs=%s", bucket(len(got)), bucket(len(p.runs))))
	if v := compare("wrap", r1, r2, dg, dw, linesDiff(got, want, w.fn)); v != nil {
		return v
	}
	if !r1.panicked {
		live := got
		w.retain("wrap", "[]Line of the last WrapParagraph", func() string { return digestLines(live, w.fn) }, 1)
	}
	return nil
}

func bucket(n int) string {
	switch {
	case n == 0:
		return "0"
	case n == 1:
		return "1"
	case n <= 3:
		return "2-3"
	case n <= 10:
		return "4-10"
	case n <= 100:
		return "11-100"
	}
	return ">100"
}

func (w *reuseWorld) opPrepare(op *ReuseOp) *kernel.Violation {
	p, ok := w.buildParagraph(op)
	if !ok {
		return nil
	}
	w.invalidate("wrap")
	if w.prepared && !w.wrapDone {
		w.probe("wrapper_paragraph_abandoned")
	}
	if w.out.Counters["op.wrap"]+w.out.Counters["op.prepare"] > 1 {
		w.probe("wrapper_reused")
	}
	w.refWrap = &shaping.LineWrapper{}
	r1 := reused(func() {
		w.wrap.Prepare(p.config(), copyRunes(p.text), shaping.NewSliceIterator(copyOutputs(p.runs)))
	})
	r2 := protect(func() {
		w.refWrap.Prepare(p.config(), copyRunes(p.text), shaping.NewSliceIterator(copyOutputs(p.runs)))
	})
	w.prepared, w.wrapDone = true, false
	w.log("prepare")
	if r1.panicked || r2.panicked {
		w.prepared = false
	}
	return compare("prepare", r1, r2, "", "", "")
}

func digestWrapped(l shaping.WrappedLine, done bool, fn faceNamer) string {
	return fmt.Sprintf("done=%v trunc=%d next=%d line=%s", done, l.Truncated, l.NextLine, digestLine(l.Line, fn))
}

func (w *reuseWorld) opNextLine(op *ReuseOp) *kernel.Violation {
	if !w.prepared || w.refWrap == nil {
		return nil
	}
	var got, want shaping.WrappedLine
	var dg, dw string
	var d1, d2 bool
	r1 := reused(func() { got, d1 = w.wrap.WrapNextLine(op.N); dg = digestWrapped(got, d1, w.fn) })
	r2 := protect(func() { want, d2 = w.refWrap.WrapNextLine(op.N); dw = digestWrapped(want, d2, w.fn) })
	if r1.panicked && r2.panicked {
		w.out.Count("shared_panic.nextline", 1)
		w.prepared = false
	}
	w.log("nextline " + dg)
	w.out.Count("check.fresh", 1)
	if d1 {
		w.wrapDone = true
	}
	if v := compare("nextline", r1, r2, dg, dw, linesDiff([]shaping.Line{got.Line}, []shaping.Line{want.Line}, w.fn)); v != nil {
		return v
	}
	if !r1.panicked && got.Line != nil {
		live := got
		w.retain("wrap", "Line of an earlier WrapNextLine", func() string { return digestLine(live.Line, w.fn) }, 12)
	}
	return nil
}

// ------------------------------------------------------------------ segmenter.Segmenter (shared with engine segreuse)

type usegIter struct {
	kind int // 0 line, 1 grapheme, 2 word
	li   *segmenter.LineIterator
	gi   *segmenter.GraphemeIterator
	wi   *segmenter.WordIterator
	// the model: the boundary list computed by a fresh segmenter at Init time
	ref  []usegSeg
	pos  int
	done bool
	end  int // end offset of the previous segment (protocol invariants)
}

type usegSeg struct {
	off       int
	text      string
	mandatory bool
}

type usegWorld struct {
	seg    segmenter.Segmenter
	inited bool
	text   []rune
	passed []rune // the slice handed to Init (the caller may scribble over it afterwards)
	iters  []*usegIter
	model  [3][]usegSeg
	nInit  int
	// strict: also evaluate the iteration-protocol invariants against the input itself
	strict bool
	kept   [][]rune // segment slices returned since the last Init
	// docs: buffers the caller passed to earlier Init calls and still owns (with a private copy
	// of what it wrote there): segmenting another paragraph must not have changed them
	docs [][2][]rune
}

func (u *usegWorld) init() {}

// keep retains the slices the iterators hand out (the last few): a caller may well pass one of
// them to the next Init, whatever storage it is a window of.
func (u *usegWorld) keep(t []rune) {
	if len(t) == 0 {
		return
	}
	if len(u.kept) >= 8 {
		u.kept = u.kept[1:]
	}
	u.kept = append(u.kept, t)
}

// texts whose end leaves the segmentation rules' look-behind state non-neutral
var usegDecoys = []string{"", "\U0001F1EB", "12", "a ", "x\u200d", "(", "a\u0301", "\U0001F469\u200d", "\U0001F1EB\U0001F1F7\U0001F1EB", "1,", "a'", "\u05d0\""}

func collectSegments(text []rune) (out [3][]usegSeg) {
	var s segmenter.Segmenter
	s.Init(copyRunes(text))
	li := s.LineIterator()
	for li.Next() {
		l := li.Line()
		out[0] = append(out[0], usegSeg{l.Offset, string(l.Text), l.IsMandatoryBreak})
	}
	gi := s.GraphemeIterator()
	for gi.Next() {
		g := gi.Grapheme()
		out[1] = append(out[1], usegSeg{g.Offset, string(g.Text), false})
	}
	wi := s.WordIterator()
	for wi.Next() {
		g := wi.Word()
		out[2] = append(out[2], usegSeg{g.Offset, string(g.Text), false})
	}
	return out
}

func (u *usegWorld) exec(op *ReuseOp, out *kernel.Outcome, trace *uint64) *kernel.Violation {
	logf := func(s string) { *trace = kernel.SplitMix64(*trace ^ kernel.HashString(s)) }
	if kernel.ReferenceOnly {
		if op.K == "uinit" {
			protect(func() { collectSegments([]rune(op.Text)) })
		}
		return nil
	}
	switch op.K {
	case "uinit":
		text := []rune(op.Text)
		switch {
		case op.E == 2 && len(u.kept) > 0:
			// the caller segments one of the segments it was given: the very slice, not a copy
			text = copyRunes(u.kept[op.Iter%len(u.kept)])
		case op.E == 3 && len(u.text) > 0 && len(u.text) < 200:
			// typing: the previous paragraph plus a few runes
			text = append(copyRunes(u.text), text...)
		case op.E == 5 && len(u.text) > 1:
			// backspace: the previous paragraph without its last few runes
			k := 1 + op.Iter%3
			if k >= len(u.text) {
				k = len(u.text) - 1
			}
			text = copyRunes(u.text[:len(u.text)-k])
			out.Count("probe.useg_previous_paragraph_cut_short", 1)
		}
		if op.E == 4 && len(u.docs) > 0 {
			// the caller submits, again, a paragraph it submitted earlier: the very same slice
			d := u.docs[op.Iter%len(u.docs)]
			text = d[1] // what the caller wrote there
			u.text = text
			u.passed = d[0]
			out.Count("probe.useg_earlier_buffer_submitted_again", 1)
		}
		u.text = text
		if op.E == 4 && len(u.docs) > 0 {
			// u.passed set above
		} else if op.E == 2 && len(u.kept) > 0 {
			u.passed = u.kept[op.Iter%len(u.kept)]
			out.Count("probe.useg_returned_segment_fed_back", 1)
		} else if op.E == 1 && cap(u.passed) >= len(text) && len(text) > 0 {
			u.docs = nil // the caller itself overwrites a buffer it submitted earlier
			// the caller refills the buffer it used for the previous paragraph (same backing
			// array, often the same length) instead of allocating a new slice
			u.passed = u.passed[:len(text)]
			copy(u.passed, text)
			out.Count("probe.useg_input_buffer_refilled_in_place", 1)
		} else {
			u.passed = copyRunes(text)
		}
		u.iters = nil
		u.kept = nil
		// Another user of the package right before (a decoy text chosen to leave the rules'
		// look-behind state non-neutral), and a neutral text before the reference model is
		// computed: a state leak through package-level variables then shows as a difference.
		if op.S > 0 && !kernel.ReferenceOnly {
			protect(func() { collectSegments([]rune(usegDecoys[op.S%len(usegDecoys)])) })
			out.Count("probe.useg_decoy_before_init", 1)
		}
		res := reused(func() { u.seg.Init(u.passed) })
		protect(func() { collectSegments([]rune("x y")) })
		ref := protect(func() { u.model = collectSegments(text) })
		if res.panicked != ref.panicked {
			return compare("uinit", res, ref, "", "", "")
		}
		u.inited = !res.panicked
		u.nInit++
		if u.nInit > 1 {
			out.Count("probe.useg_reused", 1)
			out.Nontrivial = true
		}
		if op.E == 2 {
			// a slice handed out by the library is not the caller's to write into later on
			u.passed = nil
		} else if op.E == 0 && op.N != 1 && len(u.passed) > 0 && len(u.docs) < 6 {
			u.docs = append(u.docs, [2][]rune{u.passed, copyRunes(text)})
		}
		if op.N == 1 && op.E != 2 && op.E != 4 { // the caller reuses its slice after Init (not a document it keeps)
			for i := range u.passed {
				u.passed[i] = 'X'
			}
			out.Count("probe.useg_input_scribbled", 1)
		}
		logf("uinit " + string(text))
	case "uiter":
		if !u.inited || len(u.iters) >= 4 {
			return nil
		}
		if op.S > 0 {
			protect(func() { collectSegments([]rune(usegDecoys[op.S%len(usegDecoys)])) })
		}
		it := &usegIter{kind: op.Iter % 3}
		switch it.kind {
		case 0:
			it.li = u.seg.LineIterator()
		case 1:
			it.gi = u.seg.GraphemeIterator()
		default:
			it.wi = u.seg.WordIterator()
		}
		it.ref = u.model[it.kind]
		u.iters = append(u.iters, it)
		if len(u.iters) > 1 {
			out.Count("probe.useg_iterators_interleaved", 1)
			out.Nontrivial = true
		}
	case "unext":
		if !u.inited || len(u.iters) == 0 {
			return nil
		}
		it := u.iters[op.Iter%len(u.iters)]
		for k := 0; k < op.N; k++ {
			if v := u.step(it, out); v != nil {
				return v
			}
			logf(fmt.Sprintf("unext %d %d", it.kind, it.pos))
		}
	}
	return nil
}

func (u *usegWorld) step(it *usegIter, out *kernel.Outcome) *kernel.Violation {
	kindName := []string{"line", "grapheme", "word"}[it.kind]
	var has bool
	var got usegSeg
	res := protect(func() {
		switch it.kind {
		case 0:
			if has = it.li.Next(); has {
				l := it.li.Line()
				got = usegSeg{l.Offset, string(l.Text), l.IsMandatoryBreak}
				u.keep(l.Text)
			}
		case 1:
			if has = it.gi.Next(); has {
				g := it.gi.Grapheme()
				got = usegSeg{g.Offset, string(g.Text), false}
				u.keep(g.Text)
			}
		default:
			if has = it.wi.Next(); has {
				g := it.wi.Word()
				got = usegSeg{g.Offset, string(g.Text), false}
				u.keep(g.Text)
			}
		}
	})
	out.Count("check.fresh", 1)
	if res.panicked {
		return &kernel.Violation{Oracle: "fresh-equivalence", Site: "useg:" + kindName + ":panic:" + res.site,
			Detail: fmt.Sprintf("iterator panicked (%s at %s) on a reused segmenter; a fresh one iterates fine", res.val, res.where)}
	}
	if it.done {
		if has {
			return &kernel.Violation{Oracle: "fresh-equivalence", Site: "useg:" + kindName + ":after-end",
				Detail: fmt.Sprintf("Next returned true after exhaustion: %+v", got)}
		}
		return nil
	}
	if it.pos >= len(it.ref) {
		if !has && u.strict && it.kind != 2 && it.end != len(u.text) && !kernel.ReferenceOnly {
			return &kernel.Violation{Oracle: "iteration-protocol", Site: "useg:" + kindName + ":coverage",
				Detail: fmt.Sprintf("%s iteration of %q ended at offset %d of %d: the segments do not concatenate to the input", kindName, string(u.text), it.end, len(u.text))}
		}
		if has {
			return &kernel.Violation{Oracle: "fresh-equivalence", Site: "useg:" + kindName + ":extra",
				Detail: fmt.Sprintf("reused segmenter yields extra %s %+v after the %d a fresh segmenter yields for %q", kindName, got, len(it.ref), string(u.text))}
		}
		it.done = true
		return nil
	}
	want := it.ref[it.pos]
	if !has {
		return &kernel.Violation{Oracle: "fresh-equivalence", Site: "useg:" + kindName + ":missing",
			Detail: fmt.Sprintf("reused segmenter stops after %d %ss, a fresh one yields %d for %q", it.pos, kindName, len(it.ref), string(u.text))}
	}
	if got != want {
		return &kernel.Violation{Oracle: "fresh-equivalence", Site: "useg:" + kindName + ":segment",
			Detail: fmt.Sprintf("%s #%d of %q: reused %+v, fresh %+v", kindName, it.pos, string(u.text), got, want)}
	}
	it.pos++
	if u.strict {
		// protocol invariants, evaluated against the input (not against the model)
		n := len([]rune(got.text))
		bad := ""
		switch {
		case n == 0:
			bad = "empty segment"
		case got.off < 0 || got.off+n > len(u.text) || string(u.text[got.off:got.off+n]) != got.text:
			bad = "segment text is not the input slice at its offset"
		case it.kind != 2 && got.off != it.end:
			bad = fmt.Sprintf("segment starts at %d but the previous one ended at %d", got.off, it.end)
		case it.kind == 2 && got.off < it.end:
			bad = "word overlaps the previous one"
		case got.mandatory && it.kind != 0:
			bad = "mandatory flag outside line iteration"
		case it.kind == 0 && got.off+n == len(u.text) && !got.mandatory:
			bad = "the last line is not marked mandatory"
		}
		if bad != "" {
			return &kernel.Violation{Oracle: "iteration-protocol", Site: "useg:" + kindName + ":protocol",
				Detail: fmt.Sprintf("%s #%d of %q: %s (%+v)", kindName, it.pos-1, string(u.text), bad, got)}
		}
		it.end = got.off + n
		out.Count("check.protocol", 1)
	}
	return nil
}

// ------------------------------------------------------------------ shrinking

func (e *reuseEngine) Shrink(raw json.RawMessage, class string, test func(json.RawMessage) bool) json.RawMessage {
	var c ReuseCase
	if json.Unmarshal(raw, &c) != nil {
		return raw
	}
	try := func(cand ReuseCase) bool {
		b, err := json.Marshal(cand)
		return err == nil && test(b)
	}
	// 1. ddmin over the history
	c.Ops = kernel.DDMin(c.Ops, func(ops []ReuseOp) bool {
		cand := c
		cand.Ops = ops
		return try(cand)
	}, 400)
	// 2. shorter texts, simpler arguments
	for i := range c.Ops {
		op := c.Ops[i]
		t := []rune(op.Text)
		if len(t) > 1 {
			keep := kernel.DDMin(t, func(rs []rune) bool {
				cand := c
				cand.Ops = append([]ReuseOp(nil), c.Ops...)
				o := op
				o.Text = string(rs)
				o.S, o.E = 0, len(rs)
				cand.Ops[i] = o
				return try(cand)
			}, 60)
			if len(keep) < len(t) {
				c.Ops[i].Text = string(keep)
				c.Ops[i].S, c.Ops[i].E = 0, len(keep)
			}
		}
		for _, simplify := range []func(o *ReuseOp){
			func(o *ReuseOp) { o.Feats = nil },
			func(o *ReuseOp) { o.Lang = "" },
			func(o *ReuseOp) { o.Dir = 0 },
			func(o *ReuseOp) {
				if o.K == "cachesize" && o.N > 1 {
					o.N = 1
				}
			},
		} {
			cand := c
			cand.Ops = append([]ReuseOp(nil), c.Ops...)
			simplify(&cand.Ops[i])
			if try(cand) {
				c = cand
			}
		}
	}
	// 3. drop unused faces from the pool (indices are taken modulo the pool size,
	// so removal can change meaning: accept only if the class persists)
	for i := len(c.Faces) - 1; i >= 0 && len(c.Faces) > 1; i-- {
		cand := c
		cand.Faces = append(append([]FaceSpec(nil), c.Faces[:i]...), c.Faces[i+1:]...)
		cand.Ops = append([]ReuseOp(nil), c.Ops...)
		for j := range cand.Ops {
			if cand.Ops[j].F > i {
				cand.Ops[j].F--
			} else if cand.Ops[j].F == i {
				cand.Ops[j].F = 0
			}
		}
		if try(cand) {
			c = cand
		}
	}
	b, err := json.Marshal(c)
	if err != nil {
		return raw
	}
	return b
}
