package engines

import (
	"fmt"
	"sort"
	"strings"

	"github.com/go-text/typesetting/di"
	"github.com/go-text/typesetting/font"
	ot "github.com/go-text/typesetting/font/opentype"
	"github.com/go-text/typesetting/language"
	"github.com/go-text/typesetting/shaping"
	"golang.org/x/image/math/fixed"

	"verifsim/corpus"
	"verifsim/kernel"
)

// ---------- face pool (shared by several engines) ----------

// VarSetting is one design-space variation setting.
type VarSetting struct {
	Tag   string  `json:"tag"`
	Value float32 `json:"value"`
}

// FaceSpec names one face of the pool: a font of a corpus file plus settings.
// Two specs with the same (File, Index) share one parsed *font.Font.
type FaceSpec struct {
	File  string       `json:"file"`
	Index int          `json:"index"`
	Vars  []VarSetting `json:"vars,omitempty"`
	PpemX uint16       `json:"ppemx,omitempty"`
	PpemY uint16       `json:"ppemy,omitempty"`
}

// faceModel is the harness' own record of the settings of a face; fresh
// clones are built from it, never from the state of the object under test.
type faceModel struct {
	ft     *font.Font
	mode   int // 0: none, 1: vars, 2: coords
	vars   []VarSetting
	coords []font.VarCoord
	px, py uint16
}

func toVariations(vs []VarSetting) []font.Variation {
	out := make([]font.Variation, len(vs))
	for i, v := range vs {
		out[i] = font.Variation{Tag: ot.MustNewTag(pad4(v.Tag)), Value: v.Value}
	}
	return out
}

func pad4(s string) string {
	for len(s) < 4 {
		s += " "
	}
	return s[:4]
}

// newFace builds a face with the model's settings on a fresh Face object.
func (m *faceModel) newFace() *font.Face {
	f := font.NewFace(m.ft)
	switch m.mode {
	case 1:
		f.SetVariations(toVariations(m.vars))
	case 2:
		f.SetCoords(append([]font.VarCoord(nil), m.coords...))
	}
	if m.px != 0 || m.py != 0 {
		f.SetPpem(m.px, m.py)
	}
	return f
}

func loadFont(spec FaceSpec) (*font.Font, error) {
	fonts := corpus.Fonts(spec.File)
	if spec.Index < 0 || spec.Index >= len(fonts) {
		return nil, fmt.Errorf("corpus font %s#%d not loadable", spec.File, spec.Index)
	}
	return fonts[spec.Index], nil
}

func modelOf(spec FaceSpec) (*faceModel, error) {
	ft, err := loadFont(spec)
	if err != nil {
		return nil, err
	}
	m := &faceModel{ft: ft, px: spec.PpemX, py: spec.PpemY}
	if len(spec.Vars) != 0 {
		m.mode, m.vars = 1, spec.Vars
	}
	return m, nil
}

// axisCount returns the number of variation axes of a font (0 if not variable),
// measured through the public API.
func axisCount(ft *font.Font) int {
	f := font.NewFace(ft)
	f.SetVariations([]font.Variation{{Tag: ot.MustNewTag("wght"), Value: 400}})
	return len(f.Coords())
}

// cmapSample returns up to n runes mapped by the font, spread over its cmap.
func cmapSample(ft *font.Font, n int) []rune {
	if ft.Cmap == nil {
		return nil
	}
	var all []rune
	it := ft.Cmap.Iter()
	for it.Next() && len(all) < 20000 {
		r, _ := it.Char()
		all = append(all, r)
	}
	sort.Slice(all, func(i, j int) bool { return all[i] < all[j] }) // some cmaps iterate over a Go map
	if len(all) <= n {
		return all
	}
	out := make([]rune, 0, n)
	// first half: the beginning; second half: evenly spread
	for i := 0; i < n/2; i++ {
		out = append(out, all[i])
	}
	step := (len(all) - n/2) / (n - n/2)
	for i := n / 2; i < len(all) && len(out) < n; i += step {
		out = append(out, all[i])
	}
	return out
}

var cmapCache = map[*font.Font][]rune{}

func cmapRunes(ft *font.Font) []rune {
	if r, ok := cmapCache[ft]; ok {
		return r
	}
	r := cmapSample(ft, 400)
	cmapCache[ft] = r
	return r
}

// ---------- text ----------

var sampleTexts = []string{
	"Hello world",
	"The quick brown fox jumps over the lazy dog. ffi fl 1/2 3/4",
	"AV To WA fi ffl — “quoted” text…",
	"مرحبا بالعالم هذا نص عربي",
	"שלום עולם",
	"Hello مرحبا (mixed [שלום] 123) end",
	"नमस्ते दुनिया क्षत्रिय",
	"こんにちは世界。縦書き「テスト」ー",
	"한국어 텍스트",
	"emoji 😀👍🏽👨‍👩‍👧 end",
	"áễ ö",
	"line one\nline two\r\nthree four",
	"    leading and trailing    ",
	"averyveryverylongwordwithoutanybreakopportunitywhatsoever and then some",
	"ᠮᠣᠩᠭᠣᠯ ᠪᠢᠴᠢᠭ",
	"ไทยภาษา ພາສາລາວ",
	"123 456,78 9.0% $12 €3",
	"x",
	"",
	"‍‌­͏",
	"ab\tcd ef",
	// stress texts for the per-script shapers: long mark stacks, reordering, jamo composition
	"\u0628\u0654\u0658\u06dc\u06e7\u06e8\u0655\u06e3 \u0644\u0651\u064e\u0670\u0653\u0654\u06e1\u06ed",   // Arabic: 5+ modifier combining marks on one base
	"\u05e9\u05c1\u05b8\u05bc\u05bd\u0591\u05a3 \u05d1\u05b0\u05bc\u05e8\u05b5\u05d0",                     // Hebrew points and cantillation
	"\u0915\u094d\u0937\u094d\u092e\u094d\u092f\u093f\u0902\u0901 \u0930\u094d\u0915\u093f",               // Devanagari conjunct + reph + matras
	"\u0e01\u0e49\u0e33\u0e4d\u0e48\u0e38 \u0e1b\u0e35\u0e48\u0e4c\u0e47",                                 // Thai stacked marks and SARA AM
	"\u1100\u1161\u11a8\u1112\u1161\u11ab \u1100\u1100\u1161",                                             // Hangul conjoining jamo
	"\u1000\u103c\u103d\u1031\u102c\u1037\u103a \u1004\u103a\u1039\u1000",                                 // Myanmar medials, kinzi
	"\u1780\u17d2\u179a\u17c4\u17c7 \u179f\u17d2\u178f\u17d2\u179a\u17b8",                                 // Khmer coeng stacks
	"\u0f66\u0f92\u0fb2\u0f74\u0f56\u0f0b\u0f40\u0fb1\u0f72",                                              // Tibetan subjoined stacks
	"a\u0300\u0301\u0302\u0303\u0304\u0305\u0306\u0307\u0308\u0309\u030a\u030b\u030c\u0323\u0324\u0325 z", // sixteen marks on one Latin base
}

// genText draws a text: a sample, a random string over the runes of a face, or a mix.
func genText(r *kernel.Rand, runes []rune, maxLen int) []rune {
	var out []rune
	switch r.Weighted([]int{4, 4, 2}) {
	case 0:
		out = []rune(kernel.Pick(r, sampleTexts))
	case 1:
		n := r.Range(0, maxLen)
		if r.Chance(0.3) {
			n = r.Range(0, 6)
		}
		for i := 0; i < n; i++ {
			if len(runes) > 0 && r.Chance(0.8) {
				out = append(out, kernel.Pick(r, runes))
			} else {
				out = append(out, []rune{' ', '\n', 0x301, 0x200D, '-', '.', ','}[r.Intn(7)])
			}
			if r.Chance(0.15) {
				out = append(out, ' ')
			}
		}
	default:
		out = []rune(kernel.Pick(r, sampleTexts))
		for i := r.Range(0, 8); i > 0 && len(runes) > 0; i-- {
			p := r.Intn(len(out) + 1)
			out = append(out[:p], append([]rune{kernel.Pick(r, runes)}, out[p:]...)...)
		}
	}
	if len(out) > maxLen {
		out = out[:maxLen]
	}
	return out
}

// validDirections are the meaningful values of di.Direction: horizontal LTR/RTL,
// vertical TTB/BTT with unresolved orientation, upright, sideways.
var validDirections = []uint8{0, 1, 2, 3, 2 | 4, 3 | 4, 2 | 4 | 8, 3 | 4 | 8}

var someFeatures = []string{"liga", "kern", "smcp", "frac", "ss01", "calt", "dlig", "tnum", "zero", "case", "vert", "rvrn"}

// regional variants of one primary language are listed in pairs: several of them are written
// in different scripts (az-az / az-ir, mn-mn / mn-cn, pa / pa-pk, ku-tr / ku-iq, zh-*)
var someLanguages = []string{"", "en", "fr", "ar", "ja", "tr", "hi", "zh-hant", "und", "xx-unknown", "sr",
	"az-az", "az-ir", "mn-mn", "mn-cn", "pa", "pa-pk", "ku-tr", "ku-iq", "zh-cn", "zh-tw", "zh-hk", "en-us", "en-gb", "sr-latn", "fr-ca"}

func scriptOf(text []rune) language.Script {
	for _, r := range text {
		if s := language.LookupScript(r); s.Strong() {
			return s
		}
	}
	return language.Latin
}

// ---------- digests (semantic, pointer-free) ----------

type faceNamer map[*font.Face]string

func (fn faceNamer) name(f *font.Face) string {
	if f == nil {
		return "nil"
	}
	if s, ok := fn[f]; ok {
		return s
	}
	return "UNKNOWN-FACE"
}

func fmtOutput(sb *strings.Builder, o *shaping.Output, fn faceNamer) {
	fmt.Fprintf(sb, "{adv=%d size=%d lb=%v gb=%v dir=%d runes=%v face=%s vi=%d glyphs=%+v}",
		o.Advance, o.Size, o.LineBounds, o.GlyphBounds, o.Direction, o.Runes, fn.name(o.Face), o.VisualIndex, o.Glyphs)
}

func digestOutput(o *shaping.Output, fn faceNamer) string {
	var sb strings.Builder
	fmtOutput(&sb, o, fn)
	return sb.String()
}

func digestLine(l shaping.Line, fn faceNamer) string {
	var sb strings.Builder
	sb.WriteString("[")
	for i := range l {
		fmtOutput(&sb, &l[i], fn)
	}
	sb.WriteString("]")
	return sb.String()
}

func digestLines(ls []shaping.Line, fn faceNamer) string {
	var sb strings.Builder
	for _, l := range ls {
		sb.WriteString(digestLine(l, fn))
		sb.WriteString("\n")
	}
	return sb.String()
}

func digestInputs(ins []shaping.Input, fn faceNamer) string {
	var sb strings.Builder
	for _, in := range ins {
		fmt.Fprintf(&sb, "{text=%q [%d,%d) dir=%d face=%s feats=%v size=%d script=%s lang=%q}\n",
			string(in.Text), in.RunStart, in.RunEnd, in.Direction, fn.name(in.Face), in.FontFeatures, in.Size, in.Script, in.Language)
	}
	return sb.String()
}

// firstDiff renders the first position where two digests differ.
func firstDiff(a, b string) string {
	n := len(a)
	if len(b) < n {
		n = len(b)
	}
	i := 0
	for i < n && a[i] == b[i] {
		i++
	}
	lo := i - 60
	if lo < 0 {
		lo = 0
	}
	cut := func(s string) string {
		hi := i + 60
		if hi > len(s) {
			hi = len(s)
		}
		if lo > len(s) {
			return ""
		}
		return s[lo:hi]
	}
	return fmt.Sprintf("at byte %d: got …%s… want …%s…", i, cut(a), cut(b))
}

// fieldOfDiff names the first field in which two output digests differ, for the
// violation identity (so a different field of the same property is a different finding).
func fieldOfDiff(a, b string) string {
	n := len(a)
	if len(b) < n {
		n = len(b)
	}
	i := 0
	for i < n && a[i] == b[i] {
		i++
	}
	// walk back to the nearest "name=" or "Name:" token
	j := i
	for j > 0 {
		c := a[j-1]
		if c == '=' || c == ':' {
			k := j - 1
			for k > 0 && (isAlnum(a[k-1])) {
				k--
			}
			if k < j-1 {
				return a[k : j-1]
			}
		}
		j--
	}
	return "?"
}

func isAlnum(c byte) bool {
	return c >= 'a' && c <= 'z' || c >= 'A' && c <= 'Z' || c >= '0' && c <= '9'
}

// ---------- panics ----------

type callResult struct {
	panicked bool
	site     string
	where    string
	val      string
}

// protect runs f, converting a panic into data.
func protect(f func()) (res callResult) {
	defer func() {
		if r := recover(); r != nil {
			res.panicked = true
			res.site, res.where = kernel.PanicSite(3)
			res.val = kernel.PanicKind(r)
		}
	}()
	f()
	return
}

func copyRunes(r []rune) []rune { return append([]rune(nil), r...) }

func dirOf(b uint8) di.Direction { return di.Direction(b) }

func fx(v int) fixed.Int26_6 { return fixed.Int26_6(v) }

// ---------- structured differences (violation identity) ----------

// outputDiff names the first kind of field in which two Outputs differ, in a
// fixed order, so that the identity of a finding does not depend on digits.
func outputDiff(a, b *shaping.Output, fn faceNamer, fnb faceNamer) string {
	if len(a.Glyphs) != len(b.Glyphs) {
		return "glyph-count"
	}
	for i := range a.Glyphs {
		if a.Glyphs[i].GlyphID != b.Glyphs[i].GlyphID {
			return "glyph-ids"
		}
	}
	for i := range a.Glyphs {
		x, y := a.Glyphs[i], b.Glyphs[i]
		if x.ClusterIndex != y.ClusterIndex || x.RuneCount != y.RuneCount || x.GlyphCount != y.GlyphCount {
			return "clusters"
		}
	}
	for i := range a.Glyphs {
		x, y := a.Glyphs[i], b.Glyphs[i]
		if x.XAdvance != y.XAdvance || x.YAdvance != y.YAdvance || x.XOffset != y.XOffset || x.YOffset != y.YOffset {
			return "positions"
		}
	}
	for i := range a.Glyphs {
		x, y := a.Glyphs[i], b.Glyphs[i]
		if x.Width != y.Width || x.Height != y.Height || x.XBearing != y.XBearing || x.YBearing != y.YBearing {
			return "glyph-extents"
		}
	}
	for i := range a.Glyphs {
		if a.Glyphs[i] != b.Glyphs[i] {
			return "glyph-other"
		}
	}
	switch {
	case a.Advance != b.Advance:
		return "advance"
	case a.LineBounds != b.LineBounds:
		return "line-bounds"
	case a.GlyphBounds != b.GlyphBounds:
		return "glyph-bounds"
	case a.Direction != b.Direction:
		return "direction"
	case a.Runes != b.Runes:
		return "runes"
	case fn.name(a.Face) != fnb.name(b.Face):
		return "face"
	case a.Size != b.Size:
		return "size"
	case a.VisualIndex != b.VisualIndex:
		return "visual-index"
	}
	return ""
}

func linesDiff(a, b []shaping.Line, fn faceNamer) string {
	if len(a) != len(b) {
		return "line-count"
	}
	for i := range a {
		if len(a[i]) != len(b[i]) {
			return "run-count"
		}
		for j := range a[i] {
			if d := outputDiff(&a[i][j], &b[i][j], fn, fn); d != "" {
				return d
			}
		}
	}
	return ""
}

func inputsDiff(a, b []shaping.Input, fn faceNamer) string {
	if len(a) != len(b) {
		return "run-count"
	}
	for i := range a {
		x, y := a[i], b[i]
		switch {
		case x.RunStart != y.RunStart || x.RunEnd != y.RunEnd:
			return "bounds"
		case string(x.Text) != string(y.Text):
			return "text"
		case x.Direction != y.Direction:
			return "direction"
		case x.Script != y.Script:
			return "script"
		case x.Language != y.Language:
			return "language"
		case fn.name(x.Face) != fn.name(y.Face):
			return "face"
		case x.Size != y.Size:
			return "size"
		case fmt.Sprint(x.FontFeatures) != fmt.Sprint(y.FontFeatures):
			return "features"
		}
	}
	return ""
}
