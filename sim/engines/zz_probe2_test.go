package engines

import (
	"fmt"
	"testing"

	"verifsim/corpus"
	"verifsim/faultdisk"
)

func TestWhere(t *testing.T) {
	img := corpus.Bytes("hb:perf_reference/fonts/NotoNastaliqUrdu-Regular.ttf")
	_, tabs := faultdisk.ParseDirectory(img)
	for _, tb := range tabs {
		fmt.Println(tb.Tag, tb.Offset, tb.Length)
		if 349678 >= tb.Offset && 349678 < tb.Offset+tb.Length {
			fmt.Println("  ^^ in table, rel", 349678-tb.Offset, "old value", img[349678], img[349679])
		}
	}
}
