package engines

// Engine `itemreuse` (property C07, history clause + run-time invariants): one
// shaping.Segmenter under a seeded history of Split calls (sub-ranges, paragraph
// directions incl. vertical with and without fixed orientation, languages, three
// Fontmap kinds), compared with a fresh Segmenter, re-checked until the next
// Split (ownership), and on every step the partition / uniformity invariants of
// the property's first two sentences.
//
// That the chosen run boundaries are the right ones beyond those invariants is
// a pure input-output question and is not decided here.

import (
	"encoding/json"
	"fmt"
	"sort"
	"unicode"

	"github.com/go-text/typesetting/di"
	"github.com/go-text/typesetting/font"
	"github.com/go-text/typesetting/fontscan"
	"github.com/go-text/typesetting/harfbuzz"
	"github.com/go-text/typesetting/language"
	"github.com/go-text/typesetting/shaping"
	ucd "github.com/go-text/typesetting/unicodedata"
	"golang.org/x/image/math/fixed"
	"golang.org/x/text/unicode/bidi"

	"verifsim/kernel"
)

func init() { register("itemreuse", func() kernel.Engine { return &itEngine{} }) }

type itEngine struct{}

func (*itEngine) Name() string     { return "itemreuse" }
func (*itEngine) Property() string { return "C07" }

type ITCase struct {
	Faces []FaceSpec `json:"faces"`
	Ops   []ReuseOp  `json:"ops"` // kind "split" only; FM: 0 slice, 1 script-aware, 2 fontscan.FontMap
}

var itTexts = []string{
	"Hello مرحبا (mixed [שלום] 123) end",
	"abc (def) [ghi] {jkl} «mno»",
	"(مرحبا) [ab (cd) ef] ) unmatched (",
	"日本語のテキスト「かっこ」とEnglish、123。",
	"縦書き(たてがき)ー「」・…",
	"العربية 123 ABC 456 עברית",
	"á̧ e‍‌  \t\n x",
	"Привет мир, hello κόσμος",
	"1 + 2 = 3; 50% (approx.)",
	"नमस्ते (hindi) 한국어",
	"      ",
	"(((())))",
	"؟!،. ؛",
}

func (e *itEngine) Generate(seed uint64, tier string, run int) (json.RawMessage, error) {
	rk := kernel.NewRand(seed, "knobs")
	rg := kernel.NewRand(seed, "gen")
	var c ITCase
	c.Faces = pickFaceSpecs(rk)
	for i := range c.Faces {
		c.Faces[i].Vars, c.Faces[i].PpemX, c.Faces[i].PpemY = nil, 0, 0
	}
	var models []*faceModel
	for _, sp := range c.Faces {
		m, err := modelOf(sp)
		if err != nil {
			return nil, err
		}
		models = append(models, m)
	}
	n := rk.Range(3, 25)
	maxLen := kernel.Pick(rk, []int{6, 20, 60})
	for len(c.Ops) < n {
		f := rg.Intn(len(c.Faces))
		var t []rune
		switch rg.Weighted([]int{4, 3, 3}) {
		case 0:
			t = []rune(kernel.Pick(rg, itTexts))
		case 1:
			t = genText(rg, cmapRunes(models[f].ft), maxLen)
		default:
			t = append([]rune(kernel.Pick(rg, itTexts)), genText(rg, cmapRunes(models[f].ft), maxLen)...)
		}
		if rg.Chance(0.15) {
			// a tour of scripts: a few runes of each of one to three scripts taken from the whole
			// script table, biased to scripts that have runes whose vertical orientation differs from
			// the script's default, and to those runes
			t = genTour(rg)
		}
		op := ReuseOp{K: "split", F: f, Text: string(t)}
		if n := len(c.Ops); n > 0 && rg.Chance(0.2) {
			// the caller keeps one rune buffer and rewrites it in place: same backing array, same
			// length, same range and direction as the previous call, other content
			prev := &c.Ops[n-1]
			pl := len([]rune(prev.Text))
			if pl > 0 && len(t) > 0 {
				for len(t) < pl {
					t = append(t, t...)
				}
				t = t[:pl]
				prev.N = 1
				op2 := *prev
				op2.Text, op2.Flags = string(t), 0
				if rg.Chance(0.3) {
					op2.FM = rg.Intn(3)
				}
				c.Ops = append(c.Ops, op2)
				continue
			}
		}
		if rg.Chance(0.06) {
			// well-nested paired delimiters, possibly very deep, with the script changing inside
			t = genNested(rg)
			op.Text, op.Flags = string(t), 1
		}
		op.S, op.E = genBounds(rg, len(t))
		op.Dir = kernel.Pick(rg, validDirections)
		op.Size = kernel.Pick(rg, sizes)
		op.Lang = kernel.Pick(rg, someLanguages)
		op.Feats = genFeats(rg, false, 0)
		op.FM = rg.Intn(3)
		for i := rg.Range(1, len(c.Faces)); i > 0; i-- {
			op.Faces = append(op.Faces, rg.Intn(len(c.Faces)))
		}
		c.Ops = append(c.Ops, op)
	}
	return json.Marshal(c)
}

type tourScript struct {
	runes, minority []rune
}

var tourScripts []tourScript // sorted by script tag; the first tourMixed have a minority
var tourMixed int

func buildTour() {
	by := map[language.Script]*tourScript{}
	for r := rune(0x20); r < 0x20000; r++ {
		if r >= 0xD800 && r < 0xE000 {
			continue
		}
		sc := language.LookupScript(r)
		if !sc.Strong() || sc == language.Unknown {
			continue
		}
		ts := by[sc]
		if ts == nil {
			ts = &tourScript{}
			by[sc] = ts
		}
		vo := ucd.LookupVerticalOrientation(sc)
		if vo.Orientation(r) != vo.Orientation(-1) {
			if len(ts.minority) < 500 {
				ts.minority = append(ts.minority, r)
			}
		} else if len(ts.runes) < 500 {
			ts.runes = append(ts.runes, r)
		}
	}
	var keys []language.Script
	for k := range by {
		keys = append(keys, k)
	}
	sort.Slice(keys, func(i, j int) bool {
		a, b := by[keys[i]], by[keys[j]]
		if (len(a.minority) > 0) != (len(b.minority) > 0) {
			return len(a.minority) > 0
		}
		return keys[i] < keys[j]
	})
	for _, k := range keys {
		if ts := by[k]; len(ts.runes) > 0 {
			tourScripts = append(tourScripts, *ts)
			if len(ts.minority) > 0 {
				tourMixed++
			}
		}
	}
}

func genTour(r *kernel.Rand) []rune {
	if tourScripts == nil {
		buildTour()
	}
	var out []rune
	for i := r.Range(1, 3); i > 0; i-- {
		ts := &tourScripts[r.Intn(len(tourScripts))]
		if tourMixed > 0 && r.Chance(0.5) {
			ts = &tourScripts[r.Intn(tourMixed)]
		}
		for j := r.Range(2, 8); j > 0; j-- {
			if len(ts.minority) > 0 && r.Chance(0.3) {
				out = append(out, kernel.Pick(r, ts.minority))
			} else {
				out = append(out, kernel.Pick(r, ts.runes))
			}
		}
		if r.Chance(0.3) {
			out = append(out, kernel.Pick(r, []rune{' ', '(', ')', '-', '1', 0x301}))
		}
	}
	return out
}

// genNested builds a text of properly nested brackets (depth up to 100) with strong runes of
// several scripts at various depths.
func genNested(r *kernel.Rand) []rune {
	scripts := [][]rune{[]rune("abc"), []rune("αβγ"), []rune("бвг"), []rune("漢字"), []rune("ԱԲԳ")}
	if r.Chance(0.1) {
		scripts = append(scripts, []rune("אבג"))
	}
	depth := kernel.Pick(r, []int{1, 2, 3, 8, 31, 32, 33, 34, 40, 64, 65, 100})
	open, cls := []rune("([{"), []rune(")]}")
	var t []rune
	strong := func() {
		sc := kernel.Pick(r, scripts)
		t = append(t, kernel.Pick(r, sc))
	}
	strong()
	t = append(t, ' ')
	kinds := make([]int, depth)
	for i := range kinds {
		kinds[i] = r.Intn(3)
		if r.Chance(0.7) {
			kinds[i] = kinds[0] // mostly one kind, as in the agent-free wild: ((((...))))
		}
		t = append(t, open[kinds[i]])
		if r.Chance(0.15) {
			strong()
		}
	}
	strong()
	for i := depth - 1; i >= 0; i-- {
		t = append(t, cls[kinds[i]])
		if r.Chance(0.1) {
			strong()
		}
	}
	t = append(t, ' ')
	strong()
	return t
}

// mayIgnoreFace mirrors the documented rule: spaces, controls, separators and default
// ignorables do not select a font.
func mayIgnoreFace(r rune) bool {
	return unicode.Is(unicode.Cc, r) || unicode.Is(unicode.Cs, r) || unicode.Is(unicode.Zl, r) || unicode.Is(unicode.Zp, r) ||
		(unicode.Is(unicode.Zs, r) && r != '\u1680') || harfbuzz.IsDefaultIgnorable(r)
}

type itWorld struct {
	faces  []*font.Face
	fn     faceNamer
	seg    shaping.Segmenter
	out    *kernel.Outcome
	states map[string]bool

	callerBuf []rune // the caller's long-lived text buffer (ops with N == 1)
}

func (w *itWorld) fontmap(op *ReuseOp) shaping.Fontmap {
	var fs []*font.Face
	for _, i := range op.Faces {
		fs = append(fs, w.faces[i%len(w.faces)])
	}
	if len(fs) == 0 {
		fs = append(fs, w.faces[op.F%len(w.faces)])
	}
	switch op.FM % 3 {
	case 1:
		return &scriptFontmap{faces: fs}
	case 2:
		fm := fontscan.NewFontMap(nopLogger{})
		for i, f := range fs {
			fm.AddFace(f, fontscan.Location{File: fmt.Sprintf("it-%d.ttf", i)}, font.Description{Family: fmt.Sprintf("fam%d", i%2), Aspect: font.Aspect{Style: font.StyleNormal, Weight: 400, Stretch: 1}})
		}
		fm.SetQuery(fontscan.Query{Families: []string{"fam1", "fam0"}})
		return fm
	}
	return sliceFontmap(fs)
}

func (e *itEngine) Execute(raw json.RawMessage) (*kernel.Outcome, error) {
	var c ITCase
	if err := json.Unmarshal(raw, &c); err != nil {
		return nil, err
	}
	w := &itWorld{fn: faceNamer{}, out: &kernel.Outcome{}, states: map[string]bool{}}
	if len(c.Faces) == 0 {
		return w.out, nil
	}
	for i, sp := range c.Faces {
		m, err := modelOf(sp)
		if err != nil {
			return nil, err
		}
		f := m.newFace()
		w.faces = append(w.faces, f)
		w.fn[f] = fmt.Sprintf("F%d", i)
	}
	var trace uint64
	var retainedLive []shaping.Input
	var retainedSnap string
	for i := range c.Ops {
		op := &c.Ops[i]
		w.out.Count("op.split", 1)
		text := []rune(op.Text)
		s, e2 := clampBounds(op.S, op.E, len(text))
		mk := func() shaping.Input {
			return shaping.Input{Text: copyRunes(text), RunStart: s, RunEnd: e2, Direction: di.Direction(op.Dir), FontFeatures: toFontFeatures(op.Feats),
				Size: fixed.Int26_6(op.Size), Language: language.NewLanguage(op.Lang)}
		}
		var got, want []shaping.Input
		var dg, dw string
		in := mk()
		if op.N == 1 {
			w.callerBuf = append(w.callerBuf[:0], text...)
			in.Text = w.callerBuf
			w.out.Count("probe.caller_buffer_rewritten_in_place", 1)
		}
		r1 := reused(func() { got = w.seg.Split(in, w.fontmap(op)); dg = digestInputs(got, w.fn) })
		// another Segmenter is used in between on an unrelated input: a leak through package-level
		// state then shows as a difference between the two calls with equal arguments
		protect(func() {
			(&shaping.Segmenter{}).Split(shaping.Input{Text: []rune("x (y) \u05d0 z"), RunEnd: 9, Language: "fr", Size: 64}, sliceFontmap(w.faces[:1]))
		})
		r2 := protect(func() { want = (&shaping.Segmenter{}).Split(mk(), w.fontmap(op)); dw = digestInputs(want, w.fn) })
		if r1.panicked && r2.panicked {
			w.out.Count("shared_panic.split", 1)
		}
		trace = kernel.SplitMix64(trace ^ kernel.HashString(dg))
		w.out.Count("check.fresh", 1)
		if i > 0 {
			w.out.Count("probe.segmenter_reused", 1)
			w.out.Nontrivial = true
		}
		v := compare("split", r1, r2, dg, dw, inputsDiff(got, want, w.fn))
		if v == nil && !r1.panicked && !kernel.ReferenceOnly {
			v = w.invariants(op, in, text, s, e2, got)
			// ownership: the result stays valid until the next call to Split, whatever else runs meanwhile
			if now := digestInputs(got, w.fn); v == nil && now != dg {
				v = &kernel.Violation{Oracle: "retention", Site: "split", Detail: "the result of Split changed before the next call to Split: " + firstDiff(now, dg)}
			}
		}
		if v != nil {
			v.Detail = fmt.Sprintf("op #%d (split): %s", i, v.Detail)
			w.out.Violation = v
			break
		}
		// ownership: the previous result was only valid until this call; the new one is kept
		retainedLive, retainedSnap = got, dg
		_ = retainedSnap
		w.states[fmt.Sprintf("runs=%s,dir=%d,fm=%d,sub=%v", bucket(len(got)), op.Dir, op.FM%3, s > 0 || e2 < len(text))] = true
	}
	// the last result must still be intact at the end of the history (nothing else ran)
	if w.out.Violation == nil && retainedLive != nil && !kernel.ReferenceOnly {
		if now := digestInputs(retainedLive, w.fn); now != retainedSnap {
			w.out.Violation = &kernel.Violation{Oracle: "retention", Site: "split", Detail: "the result of the last Split changed without any further call: " + firstDiff(now, retainedSnap)}
		}
	}
	w.out.Trace = trace
	for s := range w.states {
		w.out.States = append(w.out.States, s)
	}
	sort.Strings(w.out.States)
	return w.out, nil
}

func (w *itWorld) invariants(op *ReuseOp, in shaping.Input, text []rune, s, e int, runs []shaping.Input) *kernel.Violation {
	bad := func(site, format string, a ...interface{}) *kernel.Violation {
		return &kernel.Violation{Oracle: "invariant", Site: "split:" + site, Detail: fmt.Sprintf(format, a...) + fmt.Sprintf(" [text %q range %d-%d dir %d]", string(text), s, e, op.Dir)}
	}
	w.out.Count("check.invariants", 1)
	if len(runs) == 0 {
		return bad("no-runs", "Split returned no run")
	}
	// 1. consecutive, non-empty, exact cover
	pos := s
	for i, r := range runs {
		if r.RunStart != pos {
			return bad("cover", "run %d starts at %d, expected %d", i, r.RunStart, pos)
		}
		if r.RunEnd <= r.RunStart && e > s {
			return bad("empty-run", "run %d is empty (%d-%d)", i, r.RunStart, r.RunEnd)
		}
		pos = r.RunEnd
		// 2. text, size and features untouched
		if string(r.Text) != string(text) {
			return bad("text", "run %d does not carry the input text", i)
		}
		if r.Size != in.Size {
			return bad("size", "run %d has size %d, input %d", i, r.Size, in.Size)
		}
		if fmt.Sprint(r.FontFeatures) != fmt.Sprint(in.FontFeatures) {
			return bad("features", "run %d has features %v, input %v", i, r.FontFeatures, in.FontFeatures)
		}
	}
	if pos != e && !(e <= s) {
		return bad("cover", "runs end at %d, requested range ends at %d", pos, e)
	}
	if e <= s {
		return nil
	}
	// 3. bidi: every rune of a run has the embedding-level parity the run's direction reports,
	// re-derived with an independent bidi.Paragraph on the sub-range
	def := bidi.LeftToRight
	if di.Direction(op.Dir).Progression() == di.TowardTopLeft {
		def = bidi.RightToLeft
	}
	var p bidi.Paragraph
	p.SetString(string(text[s:e]), bidi.DefaultDirection(def))
	singleBidiRun := false
	if o, err := p.Order(); err == nil && o.NumRuns() > 0 {
		singleBidiRun = o.NumRuns() == 1
		rtl := make([]bool, e-s)
		for k := 0; k < o.NumRuns(); k++ {
			br := o.Run(k)
			a, b := br.Pos()
			for x := a; x <= b && x < len(rtl); x++ {
				rtl[x] = br.Direction() == bidi.RightToLeft
			}
		}
		for i, r := range runs {
			want := r.Direction.Progression() == di.TowardTopLeft
			for x := r.RunStart; x < r.RunEnd; x++ {
				if rtl[x-s] != want {
					return bad("bidi", "run %d (%d-%d) reports rtl=%v but rune %d (%U) has rtl=%v", i, r.RunStart, r.RunEnd, want, x, text[x], rtl[x-s])
				}
			}
		}
		if o.NumRuns() > 1 {
			w.out.Count("probe.bidi_mixed", 1)
		}
	}
	if op.Flags&1 != 0 && singleBidiRun {
		// (only where the range is one bidi run: scripts are resolved inside each bidi run, and a
		// pair split between two of them is not one context)
		// matched brackets follow their context: a closing bracket lies in a run of the same
		// script as its opening counterpart (pairs computed here with an independent stack, on
		// the requested range only, for texts generated as properly nested)
		scriptAt := func(x int) language.Script {
			for _, r := range runs {
				if x >= r.RunStart && x < r.RunEnd {
					return r.Script
				}
			}
			return 0
		}
		var stack []int
		for x := s; x < e; x++ {
			switch text[x] {
			case '(', '[', '{':
				stack = append(stack, x)
			case ')', ']', '}':
				if len(stack) == 0 {
					continue // its opener is outside the range
				}
				o := stack[len(stack)-1]
				stack = stack[:len(stack)-1]
				// (an opener before any strong rune sits in a run without a specific script: nothing
				// to follow then)
				if so, sc := scriptAt(o), scriptAt(x); so.Strong() && so != language.Unknown && so != sc {
					return bad("brackets", "closing %q at %d is in a run of script %s but its opening counterpart at %d (nesting depth %d) in a run of script %s", text[x], x, sc, o, len(stack)+1, so)
				}
			}
		}
		w.out.Count("probe.nested_brackets_checked", 1)
	}
	vertical := di.Direction(op.Dir).IsVertical()
	fm := w.fontmap(op)
	for i, r := range runs {
		// axis and fixed orientation are inherited
		if r.Direction.IsVertical() != vertical {
			return bad("axis", "run %d changed the text axis", i)
		}
		// 4. single strong script
		for x := r.RunStart; x < r.RunEnd; x++ {
			if sc := language.LookupScript(text[x]); sc.Strong() && sc != language.Unknown && r.Script.Strong() && sc != r.Script {
				// a closing bracket takes the script of its opener, not covered by Strong(): brackets are Common
				return bad("script", "run %d has script %s but contains %U of script %s", i, r.Script, text[x], sc)
			}
		}
		// 5. uniform orientation (vertical text without a fixed orientation)
		if vertical && !di.Direction(op.Dir).HasVerticalOrientation() {
			vo := ucd.LookupVerticalOrientation(r.Script)
			for x := r.RunStart; x < r.RunEnd; x++ {
				if vo.Orientation(text[x]) != r.Direction.IsSideways() {
					return bad("orientation", "run %d is sideways=%v but %U resolves to sideways=%v", i, r.Direction.IsSideways(), text[x], vo.Orientation(text[x]))
				}
			}
			w.out.Count("probe.vertical_orientation_resolved", 1)
		} else if vertical && r.Direction.IsSideways() != di.Direction(op.Dir).IsSideways() {
			return bad("orientation", "run %d changed a fixed orientation", i)
		}
		// 6. every rune that may select a font resolves to the run's face
		if r.Face == nil {
			return bad("face", "run %d has no face", i)
		}
		if ws, ok := fm.(shaping.FontmapScript); ok {
			ws.SetScript(r.Script)
		}
		for x := r.RunStart; x < r.RunEnd; x++ {
			if mayIgnoreFace(text[x]) {
				continue
			}
			if f := fm.ResolveFace(text[x]); f != r.Face {
				return bad("face", "run %d uses face %s but %U resolves to %s", i, w.fn.name(r.Face), text[x], w.fn.name(f))
			}
		}
		// 7. language compatible with the script, when the library knows a language for it
		if id, ok := language.NewLangID(r.Language); ok {
			if repl := language.ScriptToLang[r.Script]; repl != 0 && !id.UseScript(r.Script) && r.Language != repl.Language() {
				return bad("language", "run %d has language %q which does not use script %s although the library knows one that does (%q)", i, r.Language, r.Script, repl.Language())
			}
		}
	}
	return nil
}

func (e *itEngine) Shrink(raw json.RawMessage, class string, test func(json.RawMessage) bool) json.RawMessage {
	var c ITCase
	if json.Unmarshal(raw, &c) != nil {
		return raw
	}
	try := func(cand ITCase) bool {
		b, err := json.Marshal(cand)
		return err == nil && test(b)
	}
	c.Ops = kernel.DDMin(c.Ops, func(o []ReuseOp) bool { cand := c; cand.Ops = o; return try(cand) }, 200)
	for i := range c.Ops {
		t := []rune(c.Ops[i].Text)
		if len(t) < 2 {
			continue
		}
		keep := kernel.DDMin(t, func(rs []rune) bool {
			cand := c
			cand.Ops = append([]ReuseOp(nil), c.Ops...)
			cand.Ops[i].Text = string(rs)
			cand.Ops[i].S, cand.Ops[i].E = 0, len(rs)
			return try(cand)
		}, 80)
		if len(keep) < len(t) {
			c.Ops[i].Text = string(keep)
			c.Ops[i].S, c.Ops[i].E = 0, len(keep)
		}
	}
	b, err := json.Marshal(c)
	if err != nil {
		return raw
	}
	return b
}
