package engines

// Engine `fontmapsim` (property C14): one fontscan.FontMap under a seeded
// history of AddFace / AddFont / UseSystemFonts / SetQuery / SetScript /
// SetRuneCacheSize / ResolveFace / ResolveFaceForLang, checked per lookup
// against (M1) an uncached replica rebuilt from the add-history and (M2) an
// independent executable model of the documented priority.

import (
	"bytes"
	"encoding/json"
	"fmt"
	"os"
	"path/filepath"
	"sort"
	"strings"
	"unicode"

	"github.com/go-text/typesetting/font"
	"github.com/go-text/typesetting/fontscan"
	"github.com/go-text/typesetting/language"

	"verifsim/corpus"
	"verifsim/kernel"
)

func init() { register("fontmapsim", func() kernel.Engine { return &fmEngine{} }) }

type fmEngine struct{}

func (*fmEngine) Name() string     { return "fontmapsim" }
func (*fmEngine) Property() string { return "C14" }

type AspectSpec struct {
	Style   uint8   `json:"style"`
	Weight  float32 `json:"weight"`
	Stretch float32 `json:"stretch"`
}

func (a AspectSpec) aspect() font.Aspect {
	return font.Aspect{Style: font.Style(a.Style), Weight: font.Weight(a.Weight), Stretch: font.Stretch(a.Stretch)}
}

// FMFont is one potential database entry.
type FMFont struct {
	File   string     `json:"file"`
	Index  int        `json:"index"`
	Family string     `json:"family"`
	Aspect AspectSpec `json:"aspect"`
	Ext    string     `json:"ext"` // extension of the Location file name (".ttf" / ".otf")
}

type FMOp struct {
	K        string     `json:"k"` // addface addfont usesystem setquery setscript cachesize resolve resolvelang breakfile
	I        int        `json:"i,omitempty"`
	Families []string   `json:"families,omitempty"`
	Aspect   AspectSpec `json:"aspect,omitempty"`
	Script   uint32     `json:"script,omitempty"`
	R        rune       `json:"r,omitempty"`
	N        int        `json:"n,omitempty"`
	Lang     string     `json:"lang,omitempty"`
}

type FMCase struct {
	Fonts  []FMFont `json:"fonts"`
	System []string `json:"system,omitempty"` // corpus files making up the simulated system font directory
	Faults bool     `json:"faults,omitempty"` // fault family: system font files are broken after indexing
	Ops    []FMOp   `json:"ops"`
}

var fmFamilies = []string{"alpha", "Beta", "ab", "c", "a", "bc", "DejaVu Sans", "Liberation Mono", "Arial", "Times New Roman",
	"Noto Sans", "Courier New", "mono thing", "Gamma Mono", "Helvetica", "Nimbus Sans", "Noto Serif"}

var fmGenerics = []string{"serif", "sans-serif", "monospace", "cursive", "fantasy", "math", "emoji"}

// small fonts with varied coverage, so that rebuilding a replica is cheap
var fmPool = []string{
	"ot:common/Roboto-BoldItalic.ttf", "ot:common/DejaVuSans.ttf", "ot:common/NotoSansArabic.ttf", "ot:common/Raleway-v4020-Regular.otf",
	"ot:common/Lmmono-italic.otf", "ot:common/NotoSansMongolian-Regular.ttf", "ot:common/Go-Mono-Bold-Italic.ttf",
	"ot:common/LiberationMono-Italic.ttf", "ot:common/Commissioner-VF.ttf", "ot:common/Mada-VF.ttf", "ot:common/Estedad-VF.ttf",
	"ot:toys/CFF2-VF.otf", "ot:toys/Var1.ttf", "ot:toys/Sbix1.ttf", "ot:toys/KacstQurn.ttf", "ot:toys/chromacheck-svg.ttf",
	"ot:common/OldaniaADFStd-Bold.otf", "ot:common/Selawik-VF.ttf", "ot:collections/Courier.dfont", "ot:bitmap/IBM3161-bitmap.otb",
	"ot:common/mplus-1p-regular.ttf", "ot:common/FreeSerif.ttf",
}

var fmSystemPool = []string{
	"ot:common/DejaVuSans.ttf", "ot:common/DejaVuSansMono.ttf", "ot:common/NotoSansArabic.ttf", "ot:common/Raleway-v4020-Regular.otf",
	"ot:common/LiberationMono-Italic.ttf", "ot:common/Roboto-BoldItalic.ttf", "ot:common/Lmmono-italic.otf", "ot:collections/Courier.dfont",
	"ot:common/Go-Mono-Bold-Italic.ttf", "ot:common/NotoSansMongolian-Regular.ttf", "ot:toys/KacstQurn.ttf",
}

func genAspect(r *kernel.Rand) AspectSpec {
	return AspectSpec{
		Style:   uint8(kernel.Pick(r, []int{0, 1, 2})),
		Weight:  float32(kernel.Pick(r, []int{0, 100, 300, 400, 400, 500, 700, 900})),
		Stretch: kernel.Pick(r, []float32{0, 0.5, 0.75, 1, 1, 1.25, 2}),
	}
}

var fmScripts = []language.Script{0, language.Latin, language.Arabic, language.Han, language.Cyrillic, language.Common, language.Mongolian, language.Hebrew, language.Greek}

func (e *fmEngine) Generate(seed uint64, tier string, run int) (json.RawMessage, error) {
	rk := kernel.NewRand(seed, "knobs")
	rg := kernel.NewRand(seed, "gen")
	var c FMCase
	nFonts := rk.Range(1, 8)
	famPool := fmFamilies
	collisions := false
	var collPair [2][]string
	switch rk.Weighted([]int{4, 4, 2}) {
	case 1: // few families: many entries share a family and differ by aspect
		famPool = []string{kernel.Pick(rk, fmFamilies), kernel.Pick(rk, fmFamilies), kernel.Pick(rk, fmFamilies)}
	case 2: // families whose concatenations collide in the rune cache key
		collisions = true
		collPair = kernel.Pick(rk, [][2][]string{
			{{"ab", "c"}, {"a", "bc"}}, {{"abc", ""}, {"", "abc"}}, {{"c", "ab"}, {"ca", "b"}}, {{"a", "b", "c"}, {"ab", "", "c"}},
		})
		famPool = nil
		for _, l := range collPair {
			for _, f := range l {
				if f != "" {
					famPool = append(famPool, f)
				}
			}
		}
	}
	withSystem := rk.Chance(0.3)
	if withSystem {
		for _, j := range rk.Perm(len(fmSystemPool))[:rk.Range(1, 5)] {
			c.System = append(c.System, fmSystemPool[j])
		}
		c.Faults = rk.Chance(0.25)
		if rk.Chance(0.6) {
			// user fonts that carry the family name of a system font
			if len(famPool) > 3 {
				famPool = append([]string{}, famPool[:3]...)
			}
			for _, f := range c.System {
				if fonts := corpus.Fonts(f); len(fonts) > 0 {
					famPool = append(famPool, fonts[0].Describe().Family)
				}
			}
		}
	}
	var runes []rune
	for i := 0; i < nFonts; i++ {
		file := kernel.Pick(rk, fmPool)
		fonts := corpus.Fonts(file)
		if len(fonts) == 0 {
			i--
			continue
		}
		idx := rk.Intn(len(fonts))
		c.Fonts = append(c.Fonts, FMFont{File: file, Index: idx, Family: kernel.Pick(rk, famPool), Aspect: genAspect(rk), Ext: kernel.Pick(rk, []string{".ttf", ".otf", ".ttc", ""})})
		rs := cmapRunes(fonts[idx])
		for k := 0; k < 12 && len(rs) > 0; k++ {
			runes = append(runes, kernel.Pick(rk, rs))
		}
	}
	runes = append(runes, 'a', ' ', 0x10FFFD, 0x13000, 0x4E2D, 0x627, 0x1F600, 0x5D0, 0x430)
	nRunes := kernel.Pick(rk, []int{2, 5, 20, len(runes)})
	if collisions {
		nRunes = 2
		runes = append([]rune{'a', 'e'}, runes...)
		runes = runes[:12]
	}
	if nRunes < len(runes) {
		p := rk.Perm(len(runes))
		var sel []rune
		for _, j := range p[:nRunes] {
			sel = append(sel, runes[j])
		}
		runes = sel
	}
	kinds := []string{"addface", "addfont", "usesystem", "setquery", "setscript", "cachesize", "resolve", "resolvelang", "breakfile"}
	weights := []int{rk.Range(1, 4), rk.Range(0, 2), 0, rk.Range(2, 6), rk.Range(1, 5), rk.Range(0, 3), rk.Range(8, 20), rk.Range(0, 2), 0}
	if withSystem {
		weights[2] = 1
		if c.Faults {
			weights[8] = 1
		}
	}
	if collisions {
		weights[4], weights[5], weights[0], weights[1] = 0, 0, 1, 0 // keep script and cache size fixed, few adds
	}
	nOps := rk.Range(10, 120)
	if tier == "quick" {
		nOps = rk.Range(10, 60)
	}
	// every history starts by adding something
	if withSystem && rk.Chance(0.5) {
		c.Ops = append(c.Ops, FMOp{K: "usesystem"})
	}
	c.Ops = append(c.Ops, FMOp{K: "addface", I: rg.Intn(len(c.Fonts))})
	if collisions {
		for i := 1; i < len(c.Fonts); i++ {
			c.Ops = append(c.Ops, FMOp{K: "addface", I: i})
		}
	} else if rk.Chance(0.7) {
		c.Ops = append(c.Ops, FMOp{K: "cachesize", N: kernel.Pick(rk, []int{0, 1, 2, 7, 4096})})
	}
	queryPool := append(append([]string{}, famPool...), "zzz-unknown", "")
	var lastQueries []FMOp
	for len(c.Ops) < nOps {
		k := kinds[rg.Weighted(weights)]
		op := FMOp{K: k}
		switch k {
		case "addface", "addfont":
			op.I = rg.Intn(len(c.Fonts))
		case "setquery":
			if len(lastQueries) > 0 && rg.Chance(0.4) {
				op = kernel.Pick(rg, lastQueries) // back and forth between a few queries
				if len(op.Families) > 0 && rg.Chance(0.45) {
					// the same query spelled differently (case, blanks): family names are compared after
					// normalisation, generic keywords are not
					fams := append([]string(nil), op.Families...)
					i := rg.Intn(len(fams))
					fams[i] = respell(rg, fams[i])
					op.Families = fams
				}
			} else {
				for i := rg.Range(0, 3); i > 0; i-- {
					if rg.Chance(0.2) {
						g := kernel.Pick(rg, fmGenerics)
						if rg.Chance(0.3) {
							g = respell(rg, g) // "Serif", "serif ": not the keyword any more, still the same normalised name
						}
						op.Families = append(op.Families, g)
					} else {
						op.Families = append(op.Families, kernel.Pick(rg, queryPool))
					}
				}
				if collisions && rg.Chance(0.85) {
					op.Families = append([]string(nil), collPair[rg.Intn(2)]...)
				} else if rg.Chance(0.15) { // concatenations that hash identically in the rune cache key
					op.Families = kernel.Pick(rg, [][]string{{"ab", "c"}, {"a", "bc"}, {"abc"}, {"a", "b", "c"}, {"abc", ""}, {"", "abc"}, {"c", "ab"}, {"ca", "b"}})
				}
				op.Aspect = genAspect(rg)
				if collisions && rg.Chance(0.8) {
					op.Aspect = AspectSpec{} // same aspect: only the family list distinguishes the cache keys
				}
				lastQueries = append(lastQueries, op)
			}
			op.N = 0
			if rg.Chance(0.5) {
				op.N = 1 // reuse the caller's slice in place when the lengths match
			}
		case "setscript":
			op.Script = uint32(kernel.Pick(rg, fmScripts))
			if rg.Chance(0.5) {
				op.Script = uint32(language.LookupScript(kernel.Pick(rg, runes)))
			}
		case "cachesize":
			op.N = kernel.Pick(rg, []int{0, 1, 2, 7, 4096})
		case "resolve":
			op.R = kernel.Pick(rg, runes)
		case "resolvelang":
			op.Lang = kernel.Pick(rg, []string{"en", "fr", "ar", "zh", "ru", "mn", "he", "tr", "ja"})
		case "breakfile":
			op.I = rg.Intn(len(c.System))
			op.N = rg.Intn(3)
		}
		c.Ops = append(c.Ops, op)
	}
	return json.Marshal(c)
}

// ------------------------------------------------------------------ execution

type nopLogger struct{}

func (nopLogger) Printf(string, ...interface{}) {}

type fmAdd struct {
	kind string // face | font | system
	i    int
	seq  int
}

// fmMap is a FontMap plus the harness' attribution of faces to entries.
type fmMap struct {
	fm     *fontscan.FontMap
	byFace map[*font.Face]string
}

type fmWorld struct {
	famBuf  []string // the families slice last handed to SetQuery on the map under test
	c       *FMCase
	out     *kernel.Outcome
	dir     string // scratch system font directory ("" if none)
	sut     *fmMap
	adds    []fmAdd
	query   fontscan.Query
	script  language.Script
	sysUsed bool
	broken  bool
	trace   uint64
	states  map[string]bool
	cache   int
	seen    map[string]bool // lookups already made (cache-hit probe)
}

func (w *fmWorld) locName(i, seq int) fontscan.Location {
	return fontscan.Location{File: fmt.Sprintf("mem/entry-%d%s", seq, w.c.Fonts[i].Ext), Index: uint16(w.c.Fonts[i].Index)}
}

func (w *fmWorld) apply(m *fmMap, a fmAdd) error {
	switch a.kind {
	case "face":
		sp := w.c.Fonts[a.i]
		ft, err := loadFont(FaceSpec{File: sp.File, Index: sp.Index})
		if err != nil {
			return err
		}
		face := font.NewFace(ft)
		loc := w.locName(a.i, a.seq)
		m.fm.AddFace(face, loc, font.Description{Family: sp.Family, Aspect: sp.Aspect.aspect()})
		m.byFace[face] = locString(loc)
	case "font":
		sp := w.c.Fonts[a.i]
		fileID := fmt.Sprintf("mem/file-%d%s", a.seq, sp.Ext)
		// errors (unsupported resource) are part of the behaviour under test and must agree
		_ = m.fm.AddFont(bytes.NewReader(corpus.Bytes(sp.File)), fileID, sp.Family)
	case "system":
		_ = m.fm.UseSystemFonts(filepath.Join(w.dir, "cache"))
	}
	return nil
}

func locString(l fontscan.Location) string {
	return fmt.Sprintf("%s#%d/%d", l.File, l.Index, l.Instance)
}

// identify names the database entry a face returned by a map belongs to.
func (w *fmWorld) identify(m *fmMap, f *font.Face) string {
	if f == nil {
		return "nil"
	}
	if s, ok := m.byFace[f]; ok {
		return s
	}
	loc := m.fm.FontLocation(f.Font)
	s := locString(loc)
	if w.dir != "" {
		s = strings.Replace(s, w.dir, "$SYS", 1)
	}
	return s
}

func (w *fmWorld) newMap() *fmMap {
	return &fmMap{fm: fontscan.NewFontMap(nopLogger{}), byFace: map[*font.Face]string{}}
}

// replica builds an uncached map from the add-history with the current query and script.
func (w *fmWorld) replica() (*fmMap, error) {
	m := w.newMap()
	m.fm.SetRuneCacheSize(0)
	for _, a := range w.adds {
		if err := w.apply(m, a); err != nil {
			return nil, err
		}
	}
	m.fm.SetQuery(fontscan.Query{Families: append([]string(nil), w.query.Families...), Aspect: w.query.Aspect})
	m.fm.SetScript(w.script)
	return m, nil
}

func (e *fmEngine) Execute(raw json.RawMessage) (*kernel.Outcome, error) {
	var c FMCase
	if err := json.Unmarshal(raw, &c); err != nil {
		return nil, err
	}
	w := &fmWorld{c: &c, out: &kernel.Outcome{}, states: map[string]bool{}, cache: 4096, seen: map[string]bool{}}
	if len(c.Fonts) == 0 {
		return w.out, nil
	}
	if len(c.System) > 0 {
		base := os.Getenv("VERIF_SCRATCH")
		if base == "" {
			base = "/dev/shm"
			if st, err := os.Stat(base); err != nil || !st.IsDir() {
				base = os.TempDir()
			}
		}
		d, err := os.MkdirTemp(base, "verif-fm-")
		if err != nil {
			return nil, err
		}
		defer os.RemoveAll(d)
		w.dir = d
		if err := os.MkdirAll(filepath.Join(d, "fonts", "sub"), 0o755); err != nil {
			return nil, err
		}
		for i, f := range c.System {
			name := filepath.Join(d, "fonts", fmt.Sprintf("sys%d-%s", i, filepath.Base(f[3:])))
			if i%3 == 2 {
				name = filepath.Join(d, "fonts", "sub", fmt.Sprintf("sys%d-%s", i, filepath.Base(f[3:])))
			}
			if err := os.WriteFile(name, corpus.Bytes(f), 0o644); err != nil {
				return nil, err
			}
		}
		fontscan.VerifFontDirs = []string{filepath.Join(d, "fonts")}
		fontscan.VerifResetSystemFonts()
		defer func() { fontscan.VerifFontDirs = nil; fontscan.VerifResetSystemFonts() }()
	}
	w.sut = w.newMap()
	for i := range c.Ops {
		op := &c.Ops[i]
		w.out.Count("op."+op.K, 1)
		v, err := w.exec(op)
		if err != nil {
			return nil, err
		}
		if v != nil {
			v.Detail = fmt.Sprintf("op #%d (%s): %s", i, op.K, v.Detail)
			w.out.Violation = v
			break
		}
	}
	w.out.Trace = w.trace
	for s := range w.states {
		w.out.States = append(w.out.States, s)
	}
	sort.Strings(w.out.States)
	return w.out, nil
}

func (w *fmWorld) log(s string) { w.trace = kernel.SplitMix64(w.trace ^ kernel.HashString(s)) }

func (w *fmWorld) probe(name string) {
	w.out.Count("probe."+name, 1)
	w.out.Nontrivial = true
}

func (w *fmWorld) exec(op *FMOp) (*kernel.Violation, error) {
	switch op.K {
	case "addface", "addfont":
		a := fmAdd{kind: "face", i: op.I % len(w.c.Fonts), seq: len(w.adds)}
		if op.K == "addfont" {
			a.kind = "font"
		}
		if len(w.seen) > 0 {
			w.probe("add_after_lookups")
		}
		res := protect(func() { w.apply(w.sut, a) })
		if res.panicked {
			return &kernel.Violation{Oracle: "total", Site: op.K + ":panic:" + res.site, Detail: fmt.Sprintf("%s panicked: %s at %s", op.K, res.val, res.where)}, nil
		}
		w.adds = append(w.adds, a)
		w.seen = map[string]bool{}
		w.log(fmt.Sprintf("%s %d", op.K, a.i))
	case "usesystem":
		if w.dir == "" || w.sysUsed {
			return nil, nil
		}
		a := fmAdd{kind: "system", seq: len(w.adds)}
		res := protect(func() { w.apply(w.sut, a) })
		if res.panicked {
			return &kernel.Violation{Oracle: "total", Site: "usesystem:panic:" + res.site, Detail: fmt.Sprintf("UseSystemFonts panicked: %s at %s", res.val, res.where)}, nil
		}
		w.adds = append(w.adds, a)
		w.sysUsed = true
		w.seen = map[string]bool{}
		w.probe("system_fonts_used")
		w.log("usesystem")
	case "breakfile":
		if w.dir == "" || !w.sysUsed || !w.c.Faults {
			return nil, nil
		}
		// fault: a system font file is deleted or truncated after indexing
		var files []string
		filepath.Walk(filepath.Join(w.dir, "fonts"), func(p string, info os.FileInfo, err error) error {
			if err == nil && !info.IsDir() {
				files = append(files, p)
			}
			return nil
		})
		sort.Strings(files)
		if len(files) == 0 {
			return nil, nil
		}
		p := files[op.I%len(files)]
		switch op.N % 3 {
		case 0:
			os.Remove(p)
			w.out.Count("fault.system_font_deleted", 1)
		case 1:
			os.Truncate(p, 100)
			w.out.Count("fault.system_font_truncated", 1)
		default:
			os.WriteFile(p, []byte("not a font"), 0o644)
			w.out.Count("fault.system_font_overwritten", 1)
		}
		w.broken = true
		w.out.Nontrivial = true
	case "setquery":
		q := fontscan.Query{Families: append([]string(nil), op.Families...), Aspect: op.Aspect.aspect()}
		if op.N == 1 && len(w.famBuf) == len(op.Families) && len(op.Families) > 0 {
			// the caller rewrites the slice it passed last time and passes it again
			copy(w.famBuf, op.Families)
			q.Families = w.famBuf
			w.probe("query_families_slice_rewritten_in_place")
		} else {
			w.famBuf = q.Families
		}
		w.sut.fm.SetQuery(q)
		w.query = fontscan.Query{Families: append([]string(nil), op.Families...), Aspect: op.Aspect.aspect()}
		w.log(fmt.Sprintf("setquery %q %v", op.Families, op.Aspect))
	case "setscript":
		w.sut.fm.SetScript(language.Script(op.Script))
		w.script = language.Script(op.Script)
		w.log(fmt.Sprintf("setscript %d", op.Script))
	case "cachesize":
		w.sut.fm.SetRuneCacheSize(op.N)
		w.cache = op.N
		w.states[fmt.Sprintf("cache=%d", op.N)] = true
	case "resolve":
		return w.opResolve(op)
	case "resolvelang":
		return w.opResolveLang(op)
	}
	return nil, nil
}

func (w *fmWorld) opResolve(op *FMOp) (*kernel.Violation, error) {
	if len(w.adds) == 0 {
		return nil, nil
	}
	key := fmt.Sprintf("%q|%v|%d|%d", w.query.Families, w.query.Aspect, w.script, op.R)
	if w.seen[key] && w.cache > 0 {
		w.probe("repeat_lookup_cache_enabled")
	}
	if len(w.seen) >= w.cache && w.cache > 0 && !w.seen[key] {
		w.probe("cache_eviction")
	}
	if len(w.seen) > 0 && !w.seen[key] {
		w.probe("lookup_after_other_lookups")
	}
	w.seen[key] = true

	var got *font.Face
	res := protect(func() { got = w.sut.fm.ResolveFace(op.R) })
	if res.panicked {
		return &kernel.Violation{Oracle: "total", Site: "resolve:panic:" + res.site, Detail: fmt.Sprintf("ResolveFace(%U) panicked: %s at %s", op.R, res.val, res.where)}, nil
	}
	gotID := w.identify(w.sut, got)
	w.log(fmt.Sprintf("resolve %U -> %s", op.R, gotID))
	w.out.Count("check.resolve", 1)

	if w.broken {
		// fault family: relaxed oracle. Never a panic; a face from memory exists as soon
		// as one AddFace/AddFont succeeded, so nil is only acceptable with system fonts alone.
		w.out.Count("check.resolve_under_faults", 1)
		if got == nil {
			for _, a := range w.adds {
				if a.kind == "face" {
					return &kernel.Violation{Oracle: "total", Site: "resolve:nil-under-faults", Detail: fmt.Sprintf("ResolveFace(%U) returned nil although in-memory faces are present", op.R)}, nil
				}
			}
		}
		return nil, nil
	}

	// M1: uncached replica rebuilt from the add-history
	rep, err := w.replica()
	if err != nil {
		return nil, err
	}
	var want *font.Face
	res2 := protect(func() { want = rep.fm.ResolveFace(op.R) })
	if res2.panicked {
		return &kernel.Violation{Oracle: "total", Site: "resolve:replica-panic:" + res2.site, Detail: fmt.Sprintf("ResolveFace(%U) panicked on a freshly built map: %s at %s", op.R, res2.val, res2.where)}, nil
	}
	wantID := w.identify(rep, want)
	db := rep.fm.VerifDatabase()
	if got == nil && len(db) > 0 {
		return &kernel.Violation{Oracle: "total", Site: "resolve:nil", Detail: fmt.Sprintf("ResolveFace(%U) returned nil with %d fonts in the map", op.R, len(db))}, nil
	}

	// M2: the documented priority
	exp, step, arbitrary := w.model(rep, db, op.R)
	w.states[fmt.Sprintf("step=%d,db=%s,fam=%d,script=%v,hit=%v", step, bucket(len(db)), len(w.query.Families), w.script != 0, w.seen[key])] = true
	w.out.Count(fmt.Sprintf("answered_by_step_%d", step), 1)

	if arbitrary && w.sysUsed {
		// no entry covers the rune: "an arbitrary face" — with lazily loaded system
		// fonts that legitimately depends on what was loaded before. Non-nil member only.
		w.out.Count("check.arbitrary_relaxed", 1)
		if got != nil && !w.isMember(db, gotID) {
			return &kernel.Violation{Oracle: "priority", Site: "resolve:arbitrary-not-member", Detail: fmt.Sprintf("ResolveFace(%U) returned %s which is not in the database", op.R, gotID)}, nil
		}
		return nil, nil
	}
	if gotID != wantID {
		return &kernel.Violation{Oracle: "cache-transparent", Site: "resolve:differs-from-uncached",
			Detail: fmt.Sprintf("ResolveFace(%U) query=%q aspect=%v script=%s: used map returns %s, a fresh uncached map with the same fonts returns %s", op.R, w.query.Families, w.query.Aspect, w.script, gotID, wantID)}, nil
	}
	if exp != "" && gotID != exp {
		return &kernel.Violation{Oracle: "priority", Site: fmt.Sprintf("resolve:step%d", step),
			Detail: fmt.Sprintf("ResolveFace(%U) query=%q aspect=%v script=%s returns %s, the documented priority (step %d) gives %s", op.R, w.query.Families, w.query.Aspect, w.script, gotID, step, exp)}, nil
	}
	// FontLocation / FontMetadata of the result (only when the parsed font is unique in the map)
	if got != nil {
		if id, own := w.sut.byFace[got]; own {
			// which add created this face, and is its parsed font used by that add only?
			uses, idx := 0, -1
			for _, a := range w.adds {
				if a.kind == "face" && locString(w.locName(a.i, a.seq)) == id {
					idx = a.i
				}
			}
			if idx >= 0 {
				for _, a := range w.adds {
					if a.kind == "face" && w.c.Fonts[a.i].File == w.c.Fonts[idx].File && w.c.Fonts[a.i].Index == w.c.Fonts[idx].Index {
						uses++
					}
				}
			}
			if idx >= 0 && uses == 1 {
				w.out.Count("check.metadata", 1)
				if loc := locString(w.sut.fm.FontLocation(got.Font)); loc != id {
					return &kernel.Violation{Oracle: "metadata", Site: "resolve:font-location", Detail: fmt.Sprintf("FontLocation of the resolved face is %s, the face was added as %s", loc, id)}, nil
				}
				fam, _ := w.sut.fm.FontMetadata(got.Font)
				if want := font.NormalizeFamily(w.c.Fonts[idx].Family); fam != want {
					return &kernel.Violation{Oracle: "metadata", Site: "resolve:font-metadata", Detail: fmt.Sprintf("FontMetadata family of the resolved face is %q, the face was added as %q", fam, want)}, nil
				}
			}
		}
	}
	return nil, nil
}

func (w *fmWorld) isMember(db []fontscan.Footprint, id string) bool {
	for _, fp := range db {
		s := locString(fp.Location)
		if w.dir != "" {
			s = strings.Replace(s, w.dir, "$SYS", 1)
		}
		if s == id {
			return true
		}
	}
	return false
}

func hasGeneric(fams []string) bool {
	for _, f := range fams {
		switch f {
		case "serif", "sans-serif", "monospace", "cursive", "fantasy", "math", "emoji":
			return true
		}
	}
	return false
}

func scriptsContain(ss fontscan.ScriptSet, s language.Script) bool {
	for _, x := range ss {
		if x == s {
			return true
		}
	}
	return false
}

func isTT(file string) bool {
	e := strings.ToLower(filepath.Ext(file))
	return e == ".ttf" || e == ".ttc"
}

// model computes the expected entry from the documented priority:
//
//	1 exact family matches (one per queried family: best aspect among the entries of
//	  that family ordered user-provided > non-"mono" > TrueType > insertion)
//	2 substituted families and script fallbacks (content read from the replica; only
//	  its position in the order is modelled)
//	3 manually added fonts, pruned by aspect, in insertion order
//	4 entries covering the current script, in database order
//	5 otherwise an arbitrary face: the first one added
func (w *fmWorld) model(rep *fmMap, db []fontscan.Footprint, r rune) (exp string, step int, arbitrary bool) {
	cands := rep.fm.VerifCandidates()
	fams := w.query.Families
	if len(fams) == 0 {
		fams = []string{""}
	}
	var step1 []int
	if hasGeneric(fams) {
		step1 = cands.WithoutFallback // generic families are expanded by the substitution table
	} else {
		for _, fam := range fams {
			nf := font.NormalizeFamily(fam)
			var m []int
			for i, fp := range db {
				if fp.Family == nf {
					m = append(m, i)
				}
			}
			sort.SliceStable(m, func(a, b int) bool {
				fa, fb := db[m[a]], db[m[b]]
				ua, ub := fontscan.VerifIsUserProvided(fa), fontscan.VerifIsUserProvided(fb)
				if ua != ub {
					return ua
				}
				ma, mb := strings.Contains(fa.Family, "mono"), strings.Contains(fb.Family, "mono")
				if ma != mb {
					return !ma
				}
				ta, tb := isTT(fa.Location.File), isTT(fb.Location.File)
				if ta != tb {
					return ta
				}
				return false
			})
			if len(m) == 0 {
				continue
			}
			best := fontscan.VerifRetainsBestMatches(db, m, w.query.Aspect)
			if len(best) > 0 {
				step1 = append(step1, best[0])
			}
		}
	}
	var manual []int
	for i, fp := range db {
		if fontscan.VerifIsUserProvided(fp) {
			manual = append(manual, i)
		}
	}
	if len(manual) > 0 {
		manual = fontscan.VerifRetainsBestMatches(db, manual, w.query.Aspect)
	}
	var byScript []int
	for i, fp := range db {
		if scriptsContain(fp.Scripts, w.script) {
			byScript = append(byScript, i)
		}
	}
	for s, list := range [][]int{step1, cands.WithFallback, manual, byScript} {
		for _, i := range list {
			if i >= 0 && i < len(db) && db[i].Runes.Contains(r) {
				id := locString(db[i].Location)
				if w.dir != "" {
					id = strings.Replace(id, w.dir, "$SYS", 1)
				}
				return id, s + 1, false
			}
		}
	}
	// arbitrary face: with AddFace/AddFont only, the first face added
	if !w.sysUsed && len(db) > 0 {
		return locString(db[0].Location), 5, true
	}
	return "", 5, true
}

func (w *fmWorld) opResolveLang(op *FMOp) (*kernel.Violation, error) {
	if len(w.adds) == 0 || w.broken {
		return nil, nil
	}
	id, ok := language.NewLangID(language.NewLanguage(op.Lang))
	if !ok {
		return nil, nil
	}
	var got, want *font.Face
	res := protect(func() { got = w.sut.fm.ResolveFaceForLang(id) })
	if res.panicked {
		return &kernel.Violation{Oracle: "total", Site: "resolvelang:panic:" + res.site, Detail: fmt.Sprintf("ResolveFaceForLang(%s) panicked: %s at %s", op.Lang, res.val, res.where)}, nil
	}
	rep, err := w.replica()
	if err != nil {
		return nil, err
	}
	res2 := protect(func() { want = rep.fm.ResolveFaceForLang(id) })
	if res2.panicked {
		return nil, nil
	}
	g, e := w.identify(w.sut, got), w.identify(rep, want)
	w.log("resolvelang " + g)
	w.out.Count("check.resolvelang", 1)
	if g != e {
		return &kernel.Violation{Oracle: "cache-transparent", Site: "resolvelang:differs-from-fresh",
			Detail: fmt.Sprintf("ResolveFaceForLang(%s) query=%q script=%s: used map returns %s, a fresh map with the same fonts returns %s", op.Lang, w.query.Families, w.script, g, e)}, nil
	}
	return nil, nil
}

// ------------------------------------------------------------------ shrinking

func (e *fmEngine) Shrink(raw json.RawMessage, class string, test func(json.RawMessage) bool) json.RawMessage {
	var c FMCase
	if json.Unmarshal(raw, &c) != nil {
		return raw
	}
	try := func(cand FMCase) bool {
		b, err := json.Marshal(cand)
		return err == nil && test(b)
	}
	c.Ops = kernel.DDMin(c.Ops, func(ops []FMOp) bool {
		cand := c
		cand.Ops = ops
		return try(cand)
	}, 500)
	// drop unused pool fonts
	for i := len(c.Fonts) - 1; i >= 0 && len(c.Fonts) > 1; i-- {
		used := false
		for _, op := range c.Ops {
			if (op.K == "addface" || op.K == "addfont") && op.I%len(c.Fonts) == i {
				used = true
			}
		}
		if used {
			continue
		}
		cand := c
		cand.Fonts = append(append([]FMFont(nil), c.Fonts[:i]...), c.Fonts[i+1:]...)
		cand.Ops = append([]FMOp(nil), c.Ops...)
		for j := range cand.Ops {
			if cand.Ops[j].K == "addface" || cand.Ops[j].K == "addfont" {
				k := cand.Ops[j].I % len(c.Fonts)
				if k > i {
					k--
				}
				cand.Ops[j].I = k
			}
		}
		if try(cand) {
			c = cand
		}
	}
	if len(c.System) > 0 {
		cand := c
		cand.System = nil
		if try(cand) {
			c = cand
		}
	}
	// simplify queries
	for i := range c.Ops {
		if c.Ops[i].K != "setquery" {
			continue
		}
		fams := kernel.DDMin(c.Ops[i].Families, func(f []string) bool {
			cand := c
			cand.Ops = append([]FMOp(nil), c.Ops...)
			cand.Ops[i].Families = f
			return try(cand)
		}, 20)
		c.Ops[i].Families = fams
	}
	b, err := json.Marshal(c)
	if err != nil {
		return raw
	}
	return b
}

// respell returns another spelling of a family name: upper/lower case flips and blanks added
// or removed.
func respell(r *kernel.Rand, fam string) string {
	b := []rune(fam)
	switch r.Intn(4) {
	case 0:
		for i := range b {
			if r.Chance(0.5) {
				b[i] = unicode.ToUpper(b[i])
			}
		}
	case 1:
		if len(b) > 0 {
			b[0] = unicode.ToUpper(b[0])
		}
	case 2:
		b = append(b, ' ')
		if r.Chance(0.5) {
			b = append([]rune{' '}, b...)
		}
	default:
		var o []rune
		for _, c := range b {
			if c == ' ' {
				continue
			}
			o = append(o, c)
			if r.Chance(0.15) {
				o = append(o, ' ')
			}
		}
		b = o
	}
	return string(b)
}
