package engines

// Engine `segreuse` (property C06, history clauses only): one segmenter.Segmenter
// under a seeded history of Init / iterator creation / Next in any interleaving,
// with texts over a class-representative alphabet and adversarial size patterns
// (long -> short -> empty -> long), the caller scribbling over the slice it
// passed to Init. Oracles: every Next returns what a fresh Segmenter yields for
// the same text (offset, text, mandatory flag, exhaustion), plus the iteration
// protocol invariants evaluated against the input itself.
//
// That the boundaries are those of UAX #14 / #29 is NOT decided here.

import (
	"encoding/json"
	"fmt"
	"sort"
	"unicode"

	ucd "github.com/go-text/typesetting/unicodedata"

	"verifsim/kernel"
)

func init() { register("segreuse", func() kernel.Engine { return &sgEngine{} }) }

type sgEngine struct{}

func (*sgEngine) Name() string     { return "segreuse" }
func (*sgEngine) Property() string { return "C06" }

type SGCase struct {
	Ops []ReuseOp `json:"ops"`
}

var classAlphabet []rune

// buildAlphabet picks one rune per distinct combination of line / grapheme / word
// break class, East-Asian width, Extended_Pictographic and general category, derived
// from the library's own tables at start-up.
func buildAlphabet() []rune {
	if classAlphabet != nil {
		return classAlphabet
	}
	type sig struct {
		lb, gb, wb, cat *unicode.RangeTable
		ea, pict        bool
	}
	seen := map[sig]bool{}
	add := func(r rune) {
		s := sig{ucd.LookupLineBreakClass(r), ucd.LookupGraphemeBreakClass(r), ucd.LookupWordBreakClass(r), ucd.LookupType(r),
			unicode.Is(ucd.LargeEastAsian, r), unicode.Is(ucd.Extended_Pictographic, r)}
		if !seen[s] {
			seen[s] = true
			classAlphabet = append(classAlphabet, r)
		}
	}
	for r := rune(0); r < 0x3134F; r++ {
		if r >= 0xD800 && r < 0xE000 {
			continue
		}
		add(r)
	}
	for r := rune(0xE0000); r < 0xE01F0; r++ {
		add(r)
	}
	add(0x10FFFF)
	return classAlphabet
}

// classSig is the combination of classes the segmenter's rules can distinguish.
type classSig struct {
	lb, gb, wb, cat *unicode.RangeTable
	ea, pict        bool
}

func sigOf(r rune) classSig {
	return classSig{ucd.LookupLineBreakClass(r), ucd.LookupGraphemeBreakClass(r), ucd.LookupWordBreakClass(r), ucd.LookupType(r),
		unicode.Is(ucd.LargeEastAsian, r), unicode.Is(ucd.Extended_Pictographic, r)}
}

var partnerCache = map[[2]int][]rune{}

// collisionPartners returns runes that agree with base on their low `bits` bits but differ from
// it (and from each other) in class: what a lookup memo indexed or tagged by a truncated code
// point confuses with base. At most 8, spread over the planes.
func collisionPartners(base rune, bits int) []rune {
	key := [2]int{int(base), bits}
	if p, ok := partnerCache[key]; ok {
		return p
	}
	seen := map[classSig]bool{sigOf(base): true}
	var out []rune
	step := rune(1) << uint(bits)
	for r := base & (step - 1); r <= 0x10FFFF && len(out) < 8; r += step {
		if r == base || (r >= 0xD800 && r < 0xE000) {
			continue
		}
		if sg := sigOf(r); !seen[sg] {
			seen[sg] = true
			out = append(out, r)
		}
	}
	partnerCache[key] = out
	return out
}

// collisionBases: runes whose aliases are searched (common text plus rule-relevant classes).
var collisionBases = []rune(" a1.,-\n(\"'%:ab e") // completed at first use from the alphabet

// genCollisionText: a text that mixes a few base runes with their truncation aliases
// (same low 8, 10, 12 or 16 bits), so that a per-object or per-package memo keyed by part of
// the code point serves one the classes of the other — within one text or across Init calls.
func genCollisionText(r *kernel.Rand, n, bits int) []rune {
	alpha := buildAlphabet()
	var pool []rune
	for k := 0; k < 3; k++ {
		base := kernel.Pick(r, collisionBases)
		if r.Chance(0.3) {
			base = kernel.Pick(r, alpha)
		}
		pool = append(pool, base)
		pool = append(pool, collisionPartners(base, bits)...)
	}
	out := make([]rune, 0, n)
	for i := 0; i < n; i++ {
		if r.Chance(0.8) {
			out = append(out, kernel.Pick(r, pool))
		} else {
			out = append(out, kernel.Pick(r, alpha))
		}
	}
	return out
}

func genClassText(r *kernel.Rand, n int) []rune {
	alpha := buildAlphabet()
	common := []rune(" aA1.,-\n\r‍́(\"'/:%")
	out := make([]rune, 0, n)
	for i := 0; i < n; i++ {
		switch r.Weighted([]int{5, 3, 1}) {
		case 0:
			out = append(out, kernel.Pick(r, alpha))
		case 1:
			out = append(out, kernel.Pick(r, common))
		default:
			out = append(out, rune(0x1F1E6+r.Intn(26))) // regional indicators (parity state)
		}
	}
	return out
}

func (e *sgEngine) Generate(seed uint64, tier string, run int) (json.RawMessage, error) {
	rk := kernel.NewRand(seed, "knobs")
	rg := kernel.NewRand(seed, "gen")
	var c SGCase
	n := rk.Range(4, 40)
	sizes := []int{0, 1, 2, 3, 5, 8, 16, 33, 64}
	pattern := rk.Intn(5) // 3: typing (every Init extends the previous paragraph by a few runes or deletes its last ones); 4: one huge paragraph, then short ones
	lastLen := 0
	lastText := ""
	// swarm knob: 20% of the runs draw their texts from truncation aliases (see genCollisionText)
	collideBits := 0
	if rk.Chance(0.2) {
		collideBits = kernel.Pick(rk, []int{8, 8, 10, 12, 16, 16})
	}
	for len(c.Ops) < n {
		switch rg.Weighted([]int{3, 3, 6}) {
		case 0:
			l := kernel.Pick(rg, sizes)
			switch pattern {
			case 1: // long -> short -> empty -> long
				l = []int{64, 3, 0, 48, 1, 33}[len(c.Ops)%6]
			case 2: // shrinking
				if lastLen > 0 {
					l = lastLen / 2
				} else {
					l = 64
				}
			case 4: // buffers grown far beyond what the following paragraphs need
				if lastLen == 0 {
					l = kernel.Pick(rg, []int{1025, 1500, 2049, 5400})
				} else {
					l = kernel.Pick(rg, []int{1, 3, 7, 12, 40})
				}
			}
			lastLen = l
			t := genClassText(rg, l)
			if collideBits > 0 {
				t = genCollisionText(rg, l, collideBits)
			}
			if rg.Chance(0.5) && l > 0 {
				// begin with a rune whose treatment depends on the look-behind state
				pre := kernel.Pick(rg, [][]rune{{0x1F1F7}, {0x1F1F7, 0x1F1EB}, {'3'}, {',', '5'}, {0x200D, 0x1F469}, {0x301}, {' ', 'a'}, {')'}, {'\'', 'b'}, {'"', 0x5D1}, {0x1F469}})
				t = append(append([]rune{}, pre...), t...)
				if len(t) > l+1 {
					t = t[:l+1]
				}
			}
			if n := len([]rune(lastText)); n > 0 && rg.Chance(0.25) {
				// a paragraph of the same length as the previous one, written into the same buffer
				t2 := genClassText(rg, n)
				if collideBits > 0 {
					t2 = genCollisionText(rg, n, collideBits)
				}
				t = t2
			}
			op := ReuseOp{K: "uinit", Text: string(t)}
			if len([]rune(lastText)) == len(t) && len(t) > 0 && string(t) != lastText {
				op.E = 1
			} else if rg.Chance(0.2) {
				op.E = 1 // refill in place with another length (the common append(buf[:0], ...) idiom)
			}
			lastText = string(t)
			switch {
			case pattern == 3 && len(c.Ops) > 0 && rg.Chance(0.3):
				// ... or deletes the last one to three runes of it (what stays is a strict prefix: every
				// rule that looked ahead at the cut sees another context now)
				op = ReuseOp{K: "uinit", E: 5, Iter: rg.Intn(3), S: op.S}
			case pattern == 3 && len(c.Ops) > 0 && rg.Chance(0.8):
				k := rg.Range(1, 3)
				add := genClassText(rg, k)
				if rg.Chance(0.6) {
					add = add[:0]
					for i := 0; i < k; i++ {
						add = append(add, kernel.Pick(rg, []rune(" aA1.,-(\"'/:%$)5\u00b0\u2030\u0301\u200d")))
					}
				}
				op = ReuseOp{K: "uinit", Text: string(add), E: 3, S: op.S}
			case rg.Chance(0.08):
				// segment a segment: the slice an iterator returned goes straight back into Init
				op = ReuseOp{K: "uinit", E: 2, Iter: rg.Intn(8), S: op.S}
			case rg.Chance(0.1):
				// a paragraph submitted earlier is submitted again (the same slice, as when a document
				// is kept in one buffer)
				op = ReuseOp{K: "uinit", E: 4, Iter: rg.Intn(6), S: op.S}
			}
			if rg.Chance(0.6) {
				op.S = rg.Range(1, 11) // a decoy text is segmented by another object right before
			}
			if rg.Chance(0.35) {
				op.N = 1
			}
			if rg.Chance(0.15) {
				op.Text = kernel.Pick(rg, sampleTexts)
			}
			c.Ops = append(c.Ops, op)
		case 1:
			c.Ops = append(c.Ops, ReuseOp{K: "uiter", Iter: rg.Intn(3), S: rg.Intn(4) * rg.Intn(4)})
		default:
			c.Ops = append(c.Ops, ReuseOp{K: "unext", Iter: rg.Intn(4), N: rg.Range(1, 12)})
		}
	}
	return json.Marshal(c)
}

func (e *sgEngine) Execute(raw json.RawMessage) (*kernel.Outcome, error) {
	var c SGCase
	if err := json.Unmarshal(raw, &c); err != nil {
		return nil, err
	}
	out := &kernel.Outcome{}
	var u usegWorld
	u.strict = true
	var trace uint64
	states := map[string]bool{}
	prev := ""
	for i := range c.Ops {
		op := &c.Ops[i]
		out.Count("op."+op.K, 1)
		if prev != "" {
			states[prev+">"+op.K] = true
		}
		prev = op.K
		if op.K == "uinit" {
			states["len="+bucket(len([]rune(op.Text)))] = true
		}
		if v := u.exec(op, out, &trace); v != nil {
			v.Detail = fmt.Sprintf("op #%d (%s): %s", i, op.K, v.Detail)
			out.Violation = v
			break
		}
	}
	out.Trace = trace
	for s := range states {
		out.States = append(out.States, s)
	}
	sort.Strings(out.States)
	return out, nil
}

func (e *sgEngine) Shrink(raw json.RawMessage, class string, test func(json.RawMessage) bool) json.RawMessage {
	var c SGCase
	if json.Unmarshal(raw, &c) != nil {
		return raw
	}
	try := func(cand SGCase) bool {
		b, err := json.Marshal(cand)
		return err == nil && test(b)
	}
	c.Ops = kernel.DDMin(c.Ops, func(o []ReuseOp) bool { return try(SGCase{Ops: o}) }, 300)
	for i := range c.Ops {
		t := []rune(c.Ops[i].Text)
		if len(t) < 2 {
			continue
		}
		keep := kernel.DDMin(t, func(rs []rune) bool {
			cand := SGCase{Ops: append([]ReuseOp(nil), c.Ops...)}
			cand.Ops[i].Text = string(rs)
			return try(cand)
		}, 80)
		c.Ops[i].Text = string(keep)
	}
	b, err := json.Marshal(c)
	if err != nil {
		return raw
	}
	return b
}
