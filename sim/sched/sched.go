//go:build instrumented

// Package sched is the cooperative task scheduler of engine schedsim (C17).
//
// Tasks are real goroutines, exactly one of which holds the baton at any time;
// a task without the baton spins on a plain variable with runtime.Gosched().
// The process runs with GOMAXPROCS=1 and asyncpreemptoff=1, so the physical
// interleaving is decided here, at the yield points (verifsim.Tick) inserted
// into the library, from an explicit plan — one plan is one exactly repeatable
// execution. Every function of this package is //go:norace and free of
// synchronisation: a hand-off creates NO happens-before edge, so the race
// detector treats the tasks as fully concurrent for their whole lifetime.
package sched

import (
	"runtime"
	"sync"

	"github.com/go-text/typesetting/verifsim"
)

const MaxTasks = 64

// Switch: when the global tick count (since the start of the concurrent phase)
// reaches At, the baton goes to task To (or the next unfinished task after it).
type Switch struct {
	At uint64 `json:"at"`
	To int    `json:"to"`
}

// Plan is the schedule of one run.
type Plan struct {
	Kind string `json:"kind"` // "sweep" | "random" | "sequential"
	// sweep: task A runs until its own tick count reaches ParkAt, is parked, all other
	// tasks run to completion one after the other (order Order), then A resumes.
	A      int    `json:"a,omitempty"`
	ParkAt uint64 `json:"park_at,omitempty"`
	// random: explicit switch points.
	Switches []Switch `json:"switches,omitempty"`
	// Order: the order in which tasks are started / resumed when a choice is needed.
	Order []int `json:"order,omitempty"`
	// SwitchAfterHold: a task is switched away from at the first yield point after it leaves a
	// held section, so that the next task runs while those accesses are still inside the
	// detector's history window
	SwitchAfterHold bool `json:"switch_after_hold,omitempty"`
}

const noTask = -1

// joined: end-of-simulation join (see taskMain)
var joined sync.WaitGroup

var (
	turn   int // holder of the baton; noTask = coordinator
	nTasks int
	done   [MaxTasks]bool
	plan   Plan
	nextSw int
	start  uint64
	lastN  uint64
	parked bool // sweep: A has been parked

	// OwnTicks[i]: ticks executed by task i so far
	OwnTicks [MaxTasks]uint64
	// switch log (for the trace digest and the evidence)
	Log    [4096]LogEntry
	NLog   int
	active bool
	// held: switching suspended (see Hold); pending: a switch came due while held
	held, pending bool
	force         bool // switch at the next yield point (SwitchAfterHold)
)

type LogEntry struct {
	From, To int
	At       uint64 // global tick since start
}

//go:norace
func waitTurn(me int) {
	for turn != me {
		runtime.Gosched()
	}
}

//go:norace
func account(me int) {
	n := verifsim.N
	if me >= 0 {
		OwnTicks[me] += n - lastN
	}
	lastN = n
}

//go:norace
func logSwitch(from, to int) {
	if NLog < len(Log) {
		Log[NLog] = LogEntry{from, to, verifsim.N - start}
		NLog++
	}
}

// nextUnfinished returns the first unfinished task in Order starting after `after`
// (cyclically), skipping `skip`; noTask if none.
//
//go:norace
func nextUnfinished(after, skip int) int {
	n := len(plan.Order)
	pos := 0
	for i, t := range plan.Order {
		if t == after {
			pos = i + 1
		}
	}
	for k := 0; k < n; k++ {
		t := plan.Order[(pos+k)%n]
		if t != skip && !done[t] {
			return t
		}
	}
	return noTask
}

// arm sets the tick at which the scheduler wants control next.
//
//go:norace
func arm(me int) {
	verifsim.Next = ^uint64(0)
	switch plan.Kind {
	case "sweep":
		if me == plan.A && !parked {
			if OwnTicks[me] >= plan.ParkAt {
				verifsim.Next = verifsim.N + 1
			} else {
				verifsim.Next = verifsim.N + (plan.ParkAt - OwnTicks[me])
			}
		}
	case "random":
		if nextSw < len(plan.Switches) {
			at := start + plan.Switches[nextSw].At
			if at <= verifsim.N {
				at = verifsim.N + 1
			}
			verifsim.Next = at
		}
	}
}

// handoff passes the baton from me to `to` and spins until it comes back.
//
//go:norace
func handoff(me, to int) {
	account(me)
	logSwitch(me, to)
	turn = to
	waitTurn(me)
	lastN = verifsim.N
	arm(me)
}

// Hold suspends switching for the calling task: an operation that may block on real
// synchronisation (sync.Once) must not be parked while it holds it, or the task that gets
// the baton would block on it for ever. The tasks stay concurrent for the race detector.
//
//go:norace
func Hold() { held = true }

// Release ends a Hold; a switch that came due meanwhile happens at the next yield point.
//
//go:norace
func Release() {
	held = false
	if !active {
		return
	}
	if plan.SwitchAfterHold {
		force = true
		verifsim.Next = verifsim.N + 1
		return
	}
	if pending {
		pending = false
		verifsim.Next = verifsim.N + 1
	}
}

// onTick is verifsim.Slow: the tick counter reached the armed value.
//
//go:norace
func onTick() {
	if !active {
		verifsim.Next = ^uint64(0)
		return
	}
	if held {
		pending = true
		verifsim.Next = ^uint64(0)
		return
	}
	me := turn
	account(me)
	if force {
		force = false
		if to := nextUnfinished(me, me); to != noTask {
			handoff(me, to)
			return
		}
	}
	switch plan.Kind {
	case "sweep":
		if me == plan.A && !parked {
			parked = true
			if to := nextUnfinished(plan.A, plan.A); to != noTask {
				handoff(me, to)
				return
			}
		}
	case "random":
		if nextSw < len(plan.Switches) {
			sw := plan.Switches[nextSw]
			nextSw++
			to := sw.To
			if to < 0 || to >= nTasks || done[to] || to == me {
				to = nextUnfinished(to, me)
			}
			if to != noTask && to != me {
				handoff(me, to)
				return
			}
		}
	}
	arm(me)
}

// finish is called by a task when its program is complete.
//
//go:norace
func finish(me int) {
	account(me)
	done[me] = true
	to := noTask
	switch plan.Kind {
	case "sweep":
		// the others run to completion one after the other, then A resumes
		to = nextUnfinished(me, plan.A)
		if to == noTask && !done[plan.A] {
			to = plan.A
		}
	default:
		to = nextUnfinished(me, me)
	}
	logSwitch(me, to)
	verifsim.Next = ^uint64(0)
	turn = to
}

//go:norace
func taskMain(me int, f func()) {
	waitTurn(me)
	lastN = verifsim.N
	arm(me)
	f()
	finish(me)
	// the only synchronisation a task ever performs, after its last instruction: it orders the
	// whole task before whatever the coordinator does after Run (resetting process-global state
	// for the next simulation). Done releases, only the coordinator's Wait acquires: no edge
	// between tasks.
	joined.Done()
}

// Run executes the tasks under the plan and returns when all have finished.
// The go statements are the only happens-before edges: coordinator -> each task.
//
//go:norace
func Run(tasks []func(), p Plan) {
	nTasks = len(tasks)
	plan = p
	if len(plan.Order) != nTasks {
		plan.Order = make([]int, nTasks)
		for i := range plan.Order {
			plan.Order[i] = i
		}
	}
	for i := range done {
		done[i] = false
		OwnTicks[i] = 0
	}
	nextSw, NLog, parked = 0, 0, false
	held, pending, force = false, false, false
	verifsim.Slow = onTick
	verifsim.Next = ^uint64(0)
	turn = -2 // nobody yet
	joined.Add(len(tasks))
	for i := range tasks {
		go taskMain(i, tasks[i])
	}
	start = verifsim.N
	lastN = start
	active = true
	first := plan.Order[0]
	if plan.Kind == "sweep" && plan.A >= 0 && plan.A < nTasks {
		first = plan.A
	}
	turn = first
	waitTurn(noTask)
	active = false
	verifsim.Next = ^uint64(0)
	joined.Wait()
}

// Ticks returns the ticks executed since the start of the current/last run.
//
//go:norace
func Ticks() uint64 { return verifsim.N - start }
