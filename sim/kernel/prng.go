// Package kernel holds the engine-independent parts of the simulator:
// the PRNG every choice is derived from, the replay file format, the shrinker,
// the statistics/evidence aggregation and the known-findings matcher.
package kernel

// SplitMix64 is the mixing function all seeds are derived with.
func SplitMix64(x uint64) uint64 {
	x += 0x9e3779b97f4a7c15
	z := x
	z = (z ^ (z >> 30)) * 0xbf58476d1ce4e5b9
	z = (z ^ (z >> 27)) * 0x94d049bb133111eb
	return z ^ (z >> 31)
}

// HashString is FNV-1a 64, used to fold labels into seeds and to hash
// run descriptions; hand-rolled so that it can run inside sync-free code.
func HashString(s string) uint64 {
	h := uint64(14695981039346656037)
	for i := 0; i < len(s); i++ {
		h ^= uint64(s[i])
		h *= 1099511628211
	}
	return h
}

// HashBytes is FNV-1a 64 over a byte slice.
func HashBytes(b []byte) uint64 {
	h := uint64(14695981039346656037)
	for _, c := range b {
		h ^= uint64(c)
		h *= 1099511628211
	}
	return h
}

// RunSeed derives the seed of run r of a property from VERIF_SEED.
func RunSeed(verifSeed uint64, property string, run int) uint64 {
	return SplitMix64(SplitMix64(verifSeed^HashString(property)) + uint64(run)*0x9e3779b97f4a7c15)
}

// Rand is a small deterministic PRNG (xorshift64*), one per labelled sub-stream.
type Rand struct{ s uint64 }

// NewRand returns the sub-stream `label` of `seed`.
func NewRand(seed uint64, label string) *Rand {
	s := SplitMix64(seed ^ HashString(label))
	if s == 0 {
		s = 0x9e3779b97f4a7c15
	}
	return &Rand{s}
}

func (r *Rand) Uint64() uint64 {
	r.s ^= r.s >> 12
	r.s ^= r.s << 25
	r.s ^= r.s >> 27
	return r.s * 2685821657736338717
}

// Intn returns a value in [0, n); n <= 0 yields 0.
func (r *Rand) Intn(n int) int {
	if n <= 0 {
		return 0
	}
	return int(r.Uint64() % uint64(n))
}

// Range returns a value in [lo, hi] inclusive.
func (r *Rand) Range(lo, hi int) int {
	if hi <= lo {
		return lo
	}
	return lo + r.Intn(hi-lo+1)
}

func (r *Rand) Float() float64 { return float64(r.Uint64()>>11) / (1 << 53) }

// Chance is true with probability p.
func (r *Rand) Chance(p float64) bool { return r.Float() < p }

func (r *Rand) Bool() bool { return r.Uint64()&1 == 1 }

// Perm returns a permutation of [0,n).
func (r *Rand) Perm(n int) []int {
	p := make([]int, n)
	for i := range p {
		p[i] = i
	}
	for i := n - 1; i > 0; i-- {
		j := r.Intn(i + 1)
		p[i], p[j] = p[j], p[i]
	}
	return p
}

// Pick returns a random element of a non-empty slice.
func Pick[T any](r *Rand, xs []T) T { return xs[r.Intn(len(xs))] }

// Weighted returns an index drawn proportionally to weights.
func (r *Rand) Weighted(weights []int) int {
	tot := 0
	for _, w := range weights {
		tot += w
	}
	if tot <= 0 {
		return 0
	}
	x := r.Intn(tot)
	for i, w := range weights {
		if x < w {
			return i
		}
		x -= w
	}
	return len(weights) - 1
}

// VerifSeed is the VERIF_SEED of the batch, set by the worker before any run
// (engines use it for batch-wide choices such as a window into an enumerated list).
var VerifSeed uint64 = 1

// ReferenceOnly makes history engines execute only the reference (fresh-object) side of
// every operation. The orchestrator uses it to attribute a wall-clock timeout: a run that
// also hangs with the reused objects left out is slow or looping in the library for
// everybody, which is not a statement about reuse.
var ReferenceOnly bool
