package kernel

import (
	"sort"
	"strings"
)

// libFrame extracts "pkg.Func" / "pkg.(*T).Method" from a traceback or race-report line
// that names a function of the library under test ("" otherwise).
func libFrame(ln string) string {
	t := strings.TrimSpace(ln)
	if strings.HasPrefix(t, "/") || strings.Contains(t, "/verifsim.") {
		return ""
	}
	const mod = "go-text/typesetting/"
	i := strings.Index(t, mod)
	if i < 0 {
		return ""
	}
	name := t[i+len(mod):]
	// cut the argument list: the first "(" that does not open a receiver ("pkg.(*T).M")
	for k := 0; k < len(name); k++ {
		if name[k] == ' ' || (name[k] == '(' && k > 0 && name[k-1] != '.') {
			name = name[:k]
			break
		}
	}
	return name
}

// FatalClass derives a violation class from the stderr of a worker that died:
// a race report (two stacks), or the first fatal/panic line plus the first library
// frame of the stack trace.
func FatalClass(stderr string) (class, first string) {
	if i := strings.Index(stderr, "WARNING: DATA RACE"); i >= 0 {
		return raceClass(stderr[i:])
	}
	kind := "died"
	for _, ln := range strings.Split(stderr, "\n") {
		t := strings.TrimSpace(ln)
		if strings.HasPrefix(t, "fatal error:") || strings.HasPrefix(t, "panic:") || strings.HasPrefix(t, "runtime: goroutine stack exceeds") {
			first = t
			switch {
			case strings.Contains(t, "stack"):
				kind = "stack-overflow"
			case strings.Contains(t, "out of memory") || strings.Contains(t, "cannot allocate"):
				kind = "out-of-memory"
			case strings.Contains(t, "concurrent map"):
				kind = "concurrent-map-access"
			case strings.HasPrefix(t, "panic:"):
				kind = "unrecovered-panic"
			default:
				kind = "fatal"
			}
			break
		}
	}
	site := "unknown"
	if kind == "stack-overflow" {
		// the top of an overflowing stack is arbitrary: name the recursion by its most frequent frame
		count := map[string]int{}
		for _, ln := range strings.Split(stderr, "\n") {
			if f := libFrame(ln); f != "" {
				count[f]++
			}
		}
		best := 0
		for f, n := range count {
			if n > best || (n == best && f < site) {
				site, best = f, n
			}
		}
		return "fatal:" + kind + "@" + site, first
	}
	for _, ln := range strings.Split(stderr, "\n") {
		if f := libFrame(ln); f != "" {
			site = f
			break
		}
	}
	return "fatal:" + kind + "@" + site, first
}

// raceClass names a race report by the innermost library frame of each of its two
// stacks (order-independent). A report without any library frame is a race inside the
// harness itself and is classified as such (an infrastructure problem, not a verdict).
func raceClass(report string) (class, first string) {
	if j := strings.Index(report, "\n==================\n"); j > 0 {
		report = report[:j]
	}
	parts := strings.Split(report, "\n\n")
	var sites []string
	for _, part := range parts {
		t := strings.TrimSpace(part)
		if !(strings.HasPrefix(t, "WARNING") || strings.HasPrefix(t, "Read at") || strings.HasPrefix(t, "Write at") ||
			strings.HasPrefix(t, "Previous ") || strings.HasPrefix(t, "Atomic")) {
			continue
		}
		site := ""
		for _, ln := range strings.Split(part, "\n") {
			if f := libFrame(ln); f != "" {
				site = f
				break
			}
		}
		if strings.HasPrefix(t, "WARNING") {
			// the first block holds the header line and the first stack
			if idx := strings.Index(part, "\n"); idx >= 0 {
				first = strings.TrimSpace(strings.SplitN(part[idx+1:], "\n", 2)[0])
			}
		}
		sites = append(sites, site)
	}
	var lib []string
	for _, s := range sites {
		if s != "" {
			lib = append(lib, s)
		}
	}
	if len(lib) == 0 {
		return "harness-race", first
	}
	sort.Strings(lib)
	if len(lib) > 2 {
		lib = lib[:2]
	}
	return "data-race@" + strings.Join(lib, "+"), first
}
