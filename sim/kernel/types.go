package kernel

import (
	"encoding/json"
	"fmt"
	"os"
	"path/filepath"
	"regexp"
	"runtime"
	"sort"
	"strings"
)

// Violation describes one failed oracle. Its identity (Class) is the oracle
// plus a normalised failure site; Detail is free text for humans.
type Violation struct {
	Oracle string `json:"oracle"`
	Site   string `json:"site"`
	Detail string `json:"detail"`
}

func (v *Violation) Class() string { return v.Oracle + "@" + v.Site }

// Outcome is what executing one simulated run produced.
type Outcome struct {
	Violation *Violation `json:"violation,omitempty"`
	// Counters: operations by kind ("op.*"), faults fired by kind ("fault.*"),
	// probes ("probe.*"), simulated time ("ticks", "simclock").
	Counters map[string]int64 `json:"counters,omitempty"`
	// Nontrivial: at least one engine-specific probe fired in this run.
	Nontrivial bool `json:"nontrivial"`
	// States: abstract state keys reached (engine-specific distinct-state measure).
	States []string `json:"states,omitempty"`
	// Trace is a digest of the full event log of the run (for determinism self-tests).
	Trace uint64 `json:"trace"`
}

func (o *Outcome) Count(key string, n int64) {
	if o.Counters == nil {
		o.Counters = map[string]int64{}
	}
	o.Counters[key] += n
}

// Engine is one simulator. Cases are explicit data (JSON): a run is first
// generated into a case and then executed from it, so a replay never re-runs
// the generator.
type Engine interface {
	Name() string
	Property() string
	// Generate builds the case of one run from its seed. run is the index of the run in
	// the batch: engines with a systematic (enumerated) sub-family walk it by index.
	Generate(seed uint64, tier string, run int) (json.RawMessage, error)
	// Execute runs a case. An error is an infrastructure problem, never a verdict.
	Execute(c json.RawMessage) (*Outcome, error)
	// Shrink minimises a failing case while the same violation class persists.
	// test executes a candidate and reports whether the class persists.
	Shrink(c json.RawMessage, class string, test func(json.RawMessage) bool) json.RawMessage
}

// Replay is the replay file: the case plus what is expected of it.
type Replay struct {
	Engine   string          `json:"engine"`
	Property string          `json:"property"`
	Seed     uint64          `json:"seed"`
	Run      int             `json:"run"`
	Tier     string          `json:"tier"`
	Class    string          `json:"class"`
	Detail   string          `json:"detail"`
	Minimal  bool            `json:"minimised"`
	Case     json.RawMessage `json:"case"`
}

func WriteReplay(dir string, r *Replay) (string, error) {
	if err := os.MkdirAll(dir, 0o755); err != nil {
		return "", err
	}
	name := fmt.Sprintf("%s-%016x.json", sanitizeFile(r.Class), r.Seed)
	p := filepath.Join(dir, name)
	b, err := json.MarshalIndent(r, "", " ")
	if err != nil {
		return "", err
	}
	return p, os.WriteFile(p, b, 0o644)
}

func ReadReplay(path string) (*Replay, error) {
	b, err := os.ReadFile(path)
	if err != nil {
		return nil, err
	}
	var r Replay
	if err := json.Unmarshal(b, &r); err != nil {
		return nil, err
	}
	return &r, nil
}

var fileRe = regexp.MustCompile(`[^A-Za-z0-9_.@-]+`)

func sanitizeFile(s string) string {
	s = fileRe.ReplaceAllString(s, "_")
	if len(s) > 120 {
		s = s[:120]
	}
	return s
}

// PanicSite returns the innermost frame of the current panic that belongs to the
// library under test (module path prefix), normalised to "pkg.Func" (no line
// numbers, so that unrelated edits do not change the identity), plus file:line
// for the detail text. Must be called from inside the deferred recover.
func PanicSite(skip int) (site, where string) {
	pcs := make([]uintptr, 128)
	n := runtime.Callers(skip, pcs)
	frames := runtime.CallersFrames(pcs[:n])
	first := ""
	for {
		f, more := frames.Next()
		if strings.Contains(f.Function, "go-text/typesetting/") && !strings.Contains(f.Function, "/verifsim.") {
			fn := f.Function[strings.Index(f.Function, "go-text/typesetting/")+len("go-text/typesetting/"):]
			return fn, fmt.Sprintf("%s:%d", trimPath(f.File), f.Line)
		}
		if first == "" && !strings.HasPrefix(f.Function, "runtime.") {
			first = f.Function
		}
		if !more {
			break
		}
	}
	return "outside-library:" + first, ""
}

// OutermostLibSite returns the outermost frame of the current panic that belongs to the
// library under test: the API call that was in progress. It identifies findings whose
// innermost frame is arbitrary (a step budget trips wherever the count happens to run out).
func OutermostLibSite(skip int) string {
	pcs := make([]uintptr, 512)
	n := runtime.Callers(skip, pcs)
	frames := runtime.CallersFrames(pcs[:n])
	last := ""
	for {
		f, more := frames.Next()
		if strings.Contains(f.Function, "go-text/typesetting/") && !strings.Contains(f.Function, "/verifsim.") {
			last = f.Function[strings.Index(f.Function, "go-text/typesetting/")+len("go-text/typesetting/"):]
		}
		if !more {
			break
		}
	}
	return last
}

func trimPath(p string) string {
	for _, m := range []string{"/typesetting/", "/repo/"} {
		if i := strings.LastIndex(p, m); i >= 0 {
			return p[i+len(m):]
		}
	}
	return p
}

// PanicKind normalises a recovered value to a short kind (no indices/lengths).
func PanicKind(r interface{}) string {
	s := fmt.Sprint(r)
	switch {
	case strings.Contains(s, "index out of range"):
		return "index out of range"
	case strings.Contains(s, "slice bounds out of range"):
		return "slice bounds out of range"
	case strings.Contains(s, "nil pointer dereference"):
		return "nil pointer dereference"
	case strings.Contains(s, "makeslice"):
		return "makeslice"
	case strings.Contains(s, "integer divide by zero"):
		return "divide by zero"
	case strings.Contains(s, "nil map"):
		return "assignment to nil map"
	}
	if len(s) > 80 {
		s = s[:80]
	}
	return s
}

// SortedKeys returns the keys of a counter map in order.
func SortedKeys(m map[string]int64) []string {
	ks := make([]string, 0, len(m))
	for k := range m {
		ks = append(ks, k)
	}
	sort.Strings(ks)
	return ks
}
