package kernel

// DDMin is delta debugging over a list: it returns a sub-list (order preserved)
// on which test still holds, 1-minimal with respect to removing single chunks.
// test(items) must be true on entry. budget bounds the number of test calls.
func DDMin[T any](items []T, test func([]T) bool, budget int) []T {
	calls := 0
	try := func(c []T) bool {
		if calls >= budget {
			return false
		}
		calls++
		return test(c)
	}
	n := 2
	for len(items) >= 2 {
		if n > len(items) {
			n = len(items)
		}
		chunk := (len(items) + n - 1) / n
		reduced := false
		// try complements (removing one chunk), from the end first: later
		// operations are more often irrelevant to a failure that already happened
		for i := n - 1; i >= 0; i-- {
			lo := i * chunk
			hi := lo + chunk
			if lo >= len(items) {
				continue
			}
			if hi > len(items) {
				hi = len(items)
			}
			cand := make([]T, 0, len(items)-(hi-lo))
			cand = append(cand, items[:lo]...)
			cand = append(cand, items[hi:]...)
			if try(cand) {
				items = cand
				if n > 2 {
					n--
				}
				reduced = true
				break
			}
		}
		if !reduced {
			if n >= len(items) {
				break
			}
			n *= 2
		}
		if calls >= budget {
			break
		}
	}
	if len(items) == 1 {
		if try(nil) {
			return nil
		}
	}
	return items
}

// ShrinkInt lowers v towards lo while test holds (binary descent, then linear tail).
func ShrinkInt(v, lo int, test func(int) bool) int {
	if v <= lo {
		return v
	}
	if test(lo) {
		return lo
	}
	// invariant: test(v) true, test(l) false
	l, h := lo, v
	for h-l > 1 {
		m := l + (h-l)/2
		if test(m) {
			h = m
		} else {
			l = m
		}
	}
	return h
}
